#!/usr/bin/env python3
"""./check <property> [--tier quick|thorough] [--replay FILE]   (cwd /verif).  See DESIGN.md §5."""
import argparse
import importlib
import json
import re
import os
import sys
import time

sys.path.insert(0, os.path.dirname(os.path.abspath(__file__)))
import vlib  # noqa: E402


def main():
    ap = argparse.ArgumentParser()
    ap.add_argument("pid")
    ap.add_argument("--tier", default=os.environ.get("VERIF_TIER", "quick"))
    ap.add_argument("--replay")
    ap.add_argument("--keep", action="store_true")
    a = ap.parse_args()
    pid = a.pid
    tier = a.tier if a.tier in ("quick", "thorough") else "quick"
    try:
        seed = int(os.environ.get("VERIF_SEED", "1"))
    except ValueError:
        seed = 1
    mod = importlib.import_module("props." + pid)
    t0 = time.time()
    os.chdir(vlib.VERIF)

    bs = vlib.build_all()
    if not bs.harness_ok:
        print("HARNESS-BUILD-FAILED (the repository no longer builds with the verif hooks?)")
        print(bs.harness_log[-3000:])
        # cannot run anything: this is not evidence of a violation of the property by itself, but the property is
        # no longer shown to hold on this tree
        rp = vlib.write_replay(pid, seed, dict(kind="no-failing-input-found", broken=dict(harness_build=bs.harness_log[-3000:])))
        print("VIOLATION property=%s replay=%s no-failing-input-found" % (pid, rp))
        return 1

    proof_ok, theorems, assumptions_out = vlib.prop_proof_status(pid, bs)
    forbidden = vlib.grep_forbidden()
    closed = assumptions_out.count("Closed under the global context")
    axioms_listed = "Axioms:" in assumptions_out

    coqchk_note = None
    if tier == "thorough" and proof_ok and not a.replay:
        # independent re-check of the compiled property file and everything it depends on
        rc, out = vlib.sh(["coqchk", "-silent", "-o", "-Q", vlib.COQ, "Sonic", "Sonic.Properties.%s" % pid], cwd=vlib.COQ, timeout=3000)
        m = re.search(r"\* Axioms:\s*(.*?)\n\s*\n", out, re.S)
        axioms = m.group(1).strip() if m else "?"
        coqchk_note = "coqchk -silent -o Sonic.Properties.%s: exit %d; axioms: %s" % (pid, rc, axioms)
        if rc != 0 or axioms != "<none>":
            proof_ok = False
            coqchk_failed = out[-1500:]
        else:
            coqchk_failed = None
    else:
        coqchk_failed = None

    if a.replay:
        rp = json.load(open(a.replay))
        cases = [(rp["header"], rp["script"])]
        res = vlib.run_pipeline(rp.get("driver", mod.DRIVER), cases, bs, tag="replay")
        bad = bool(res.oracle) or bool(res.mismatches and rp.get("kind") != "oracle-fail")
        for o in res.oracle:
            print("replay: oracle rejects step %d clause %s op [%s] %s" % (o["step"], o["clause"], o["op"], o["detail"]))
        for m in res.mismatches:
            print("replay: mismatch step %d op [%s] model=[%s] impl=[%s]" % (m["step"], m["op"], m["model"], m["impl"]))
        if bad:
            print("VIOLATION property=%s replay=%s" % (pid, a.replay))
            return 1
        print("replay: no longer fails")
        return 0

    streams = mod.generate(tier, seed)
    total = vlib.PipeResult()
    evaluations = 0
    n_cases = 0
    distinct = 0
    nontrivial = 0
    hist = {}
    samples = []
    stream_info = []
    violations = []   # (kind, text, replay path)
    known_printed = set()
    seen_groups = set()
    exit_code = 0
    env_errors = []
    any_mismatch = []
    all_digests = {}
    foreign = {}
    current_stream = [None]
    unreproduced = []   # failures of a whole-stream run that three solo re-runs of the same script did not show again

    def reproduces(driver, case, pred, model_driver=None):
        """A failure is reported only if the script shows it again when it is run on its own (every replay has to): the real
        sockets, timers and the kernel's scheduling make a few observations depend on the machine's load."""
        if current_stream[0] in getattr(mod, "UNGATED_STREAMS", ()):
            return True     # inherently probabilistic observations (races between goroutines): one sighting counts
        for k in range(3):
            r = vlib.run_pipeline(driver, [case], bs, tag="repro", model_driver=model_driver)
            if getattr(r, "crash", None) or pred(r):
                return True
        return False

    def handle_stream(name, driver, cases, model_driver=None):
        nonlocal evaluations, n_cases, distinct, nontrivial, exit_code
        if not cases:
            return
        current_stream[0] = name
        res = vlib.run_pipeline(driver, cases, bs, tag=name, model_driver=model_driver)
        if getattr(res, "crash", None):
            cr = res.crash
            rp = vlib.write_replay(pid, seed, dict(kind="oracle-fail", driver=driver, header=cr["header"], script=cr["script"], minimal=True,
                                                   oracle=dict(clause="panic", meaning="the implementation crashed or hung the process on this script",
                                                               detail=cr["stderr"][:1200]), stream=name))
            print("oracle rejects: clause panic (process crashed or hung) script=%s" % " ; ".join(cr["script"])[:600])
            print("VIOLATION property=%s replay=%s" % (pid, rp))
            violations.append(("crash", "panic", rp))
            exit_code = 1
            return
        if res.errors:
            env_errors.extend(res.errors)
            return
        evaluations += res.stats.get("steps", 0)
        n_cases += res.stats.get("cases", 0)
        for d, nt in getattr(res, "digests", {}).items():
            all_digests[d] = max(all_digests.get(d, 0), nt)
        distinct = len(all_digests)
        nontrivial = sum(all_digests.values())
        for k, v in res.hist.items():
            hist[k] = hist.get(k, 0) + v
        stream_info.append(dict(stream=name, cases=len(cases), steps=res.stats.get("steps", 0),
                                distinct_states=res.stats.get("distinct_states", 0),
                                nontrivial_states=res.stats.get("nontrivial_states", 0)))
        if res.traces and len(samples) < 6:
            h, steps = res.traces[min(len(res.traces) - 1, 3)]
            samples.append(dict(stream=name, case=h, steps=["%s => %s" % s for s in steps[:12]]))
        # oracle failures: group by (clause, attributes)
        own = getattr(mod, "OWN", None)
        for o in res.oracle:
            if own is not None and str(o["clause"]) not in own:
                foreign[str(o["clause"])] = foreign.get(str(o["clause"]), 0) + 1
                continue
            case = cases[o["case"]]
            attrs = mod.attrs(o, case) if hasattr(mod, "attrs") else {}
            key = (o["clause"], json.dumps(attrs, sort_keys=True))
            if key in seen_groups:
                continue
            seen_groups.add(key)
            kf = vlib.match_known(pid, o["clause"], attrs)
            if kf:
                if kf["id"] not in known_printed:
                    known_printed.add(kf["id"])
                    print("KNOWN-FINDING: property=%s %s" % (pid, kf["what"]))
                continue
            clause = o["clause"]

            def want(r, idx, clause=clause, attrs=attrs):
                for oo in r.oracle:
                    if oo["case"] == idx and oo["clause"] == clause:
                        return True
                return False
            if not reproduces(driver, (case[0], case[1][:o["step"] + 1]), lambda r: want(r, 0), model_driver):
                seen_groups.discard(key)
                unreproduced.append(dict(kind="oracle", stream=name, clause=str(clause), script=case[1][:o["step"] + 1], detail=o["detail"][:300]))
                continue
            small = vlib.shrink(driver, (case[0], case[1][:o["step"] + 1]), want, bs, model_driver=model_driver)
            r2 = vlib.run_pipeline(driver, [small], bs, tag="final", model_driver=model_driver)
            rp = vlib.write_replay(pid, seed, dict(
                kind="oracle-fail", driver=driver, header=small[0], script=small[1], minimal=True,
                impl_observed=["%s => %s" % s for s in (r2.traces[0][1] if r2.traces else [])],
                oracle=dict(clause=clause, meaning=getattr(mod, "CLAUSES", {}).get(str(clause), ""), attributes=attrs,
                            detail=o["detail"]),
                stream=name))
            print("oracle rejects: clause %s (%s) script=%s" % (clause, getattr(mod, "CLAUSES", {}).get(str(clause), ""), " ; ".join(small[1])))
            print("VIOLATION property=%s replay=%s" % (pid, rp))
            violations.append(("oracle", clause, rp))
            exit_code = 1
        seen_mm = set()
        for m in res.mismatches:
            if m["case"] in seen_mm:
                continue
            seen_mm.add(m["case"])
            c = cases[m["case"]]
            if len(any_mismatch) < 3 and not reproduces(driver, c, lambda r: bool(r.mismatches), model_driver):
                unreproduced.append(dict(kind="mismatch", stream=name, script=c[1][:m["step"] + 1], model=m["model"][:200], impl=m["impl"][:200]))
                continue
            any_mismatch.append((name, driver, c, m))

    for st in streams:
        handle_stream(*st)

    extra_cov = {}
    if hasattr(mod, "extra"):
        ex = mod.extra(tier, seed, bs)
        for v in ex.get("violations", []):
            kf = vlib.match_known(pid, v.get("clause"), v.get("attributes", {}))
            if kf:
                if kf["id"] not in known_printed:
                    known_printed.add(kf["id"])
                    print("KNOWN-FINDING: property=%s %s" % (pid, kf["what"]))
                continue
            rp = vlib.write_replay(pid, seed, dict(kind="oracle-fail", **v))
            print("VIOLATION property=%s replay=%s" % (pid, rp))
            violations.append(("extra", v.get("clause"), rp))
            exit_code = 1
        env_errors.extend(ex.get("errors", []))
        extra_cov = ex.get("coverage", {})
        evaluations += ex.get("evaluations", 0)

    # broken tie or broken proof without a failing input
    broken = {}
    if not bs.translator_ok:
        broken["translator"] = bs.translator_msg
    if not proof_ok:
        broken["theorems"] = "Properties/%s.v no longer checks" % pid
        broken["coq_log_tail"] = bs.coq_log[-2500:]
    if forbidden:
        broken["forbidden_constructs"] = forbidden
    if coqchk_failed:
        broken["coqchk"] = coqchk_failed
    if axioms_listed or (proof_ok and closed < len(theorems)):
        broken["axioms"] = "Print Assumptions: %d of %d theorems closed under the global context; %s" % (closed, len(theorems), assumptions_out[-1200:])
    if any_mismatch:
        name, driver, case, m = any_mismatch[0]
        broken["correspondence"] = dict(stream=name, driver=driver, header=case[0], script=case[1][:m["step"] + 1],
                                        step=m["step"], op=m["op"], model=m["model"], impl=m["impl"],
                                        mismatching_cases=len(any_mismatch))
    if broken and exit_code == 0:
        # widen the search for a failing input before giving up
        if tier == "quick" and hasattr(mod, "generate"):
            print("tie or proof broken (%s): widening the search" % ", ".join(broken.keys()))
            for st in mod.generate("thorough", seed + 1000):
                handle_stream(*st)
                if exit_code:
                    break
        if exit_code == 0:
            rp = vlib.write_replay(pid, seed, dict(kind="no-failing-input-found", broken=broken))
            for k, v in broken.items():
                print("BROKEN %s: %s" % (k, (json.dumps(v)[:600])))
            print("VIOLATION property=%s replay=%s no-failing-input-found" % (pid, rp))
            violations.append(("broken", ",".join(broken.keys()), rp))
            exit_code = 1

    wall = time.time() - t0
    coverage = dict(
        obligations=len(theorems), discharged=len(theorems) if proof_ok else 0,
        checker_cmd="make -C /verif/coq (coqc 8.16.1, full .vo build) ; coqc Properties/%s.v ; Print Assumptions" % pid,
        trusted_base=vlib.TRUSTED_BASE + getattr(mod, "TRUSTED_EXTRA", []),
        theorems=theorems, print_assumptions_closed=closed,
        evaluations=evaluations, cases=n_cases, distinct_nontrivial=nontrivial, distinct_states=distinct,
        rule=getattr(mod, "RULE", ""), samples=samples, op_histogram=hist, streams=stream_info,
        exhaustive=bool(getattr(mod, "EXHAUSTIVE", {}).get(tier, False)),
        correspondence_mismatches=len(any_mismatch), known_findings_hit=sorted(known_printed),
        clauses_of_sibling_properties_hit=foreign,
        unreproduced_observations=unreproduced[:10], unreproduced_count=len(unreproduced),
    )
    if coqchk_note:
        coverage["coqchk"] = coqchk_note
    coverage.update(extra_cov)
    if not samples:
        coverage["samples"] = extra_cov.get("samples", ["(none)"])
    vlib.write_evidence(pid, tier, seed, coverage, wall, len(violations), getattr(mod, "ASSUMPTIONS", []))
    if env_errors and exit_code == 0:
        print("ENV-ERROR: " + " | ".join(env_errors)[:3000])
        return 2
    print("%s %s: theorems=%d proof_ok=%s cases=%d steps=%d nontrivial_states=%d mismatches=%d violations=%d wall=%.1fs" % (
        pid, tier, len(theorems), proof_ok, n_cases, evaluations, nontrivial, len(any_mismatch), len(violations), wall))
    return exit_code


if __name__ == "__main__":
    sys.exit(main())
