"""C05 Post: thread-safety, exactly-once, order, wake-up, no deadlock."""
import random

DRIVER = "post"
RULE = ("deterministic schedules compared with the transition system: posts from the loop goroutine and from up to 6 other "
        "goroutines, in every order of <= 3 posters x <= 2 polls, handlers that post (nesting depth to 4, fan-out to 3), polls "
        "with nothing queued; plus concurrent phases: 1-8 goroutines x 50-400 handlers x 0-2 nested posts racing the loop, "
        "which arms and disarms a timer between polls; 6000-60000 rounds of a post racing the dispatch of the previous one while the loop blocks in epoll_wait; a watchdog (3 s) reports a blocked Post or poll as DEADLOCK. "
        "distinct = (queue length, batch, eventfd counter, pending, executed) model states; non-trivial = more than one "
        "handler queued")
UNGATED_STREAMS = {"concurrent"}   # races: a sighting is not expected to repeat on every re-run
EXHAUSTIVE = {"quick": False, "thorough": False}
CLAUSES = {"1": "a handler ran twice or a handler ran that was never posted",
           "2": "a handler ran on a goroutine other than the one running the loop",
           "3": "Post or the poll blocked (deadlock)",
           "4": "handlers posted by one goroutine ran out of order (or a nested handler before its parent)",
           "5": "a posted handler never ran although the loop kept polling",
           "6": "Pending() / Posted() not exact after everything ran",
           "7": "lost wake-up: the loop sleeps in epoll_wait while a handler is queued and nobody is about to signal",
           "race": "the race detector reported a data race between Post and the loop",
           "panic": "call panicked"}
ASSUMPTIONS = ["handlers themselves are race-free with the harness (they only append to a mutex-protected log)"]


def attrs(o, case):
    return {"op": o["op"].split()[0]}


def det_cases(rng, q):
    cases = []
    nid = [100]

    def ids(k):
        out = list(range(nid[0], nid[0] + k))
        nid[0] += k
        return out

    def s(l):
        return ",".join(str(x) for x in l) if l else "-"
    # nothing queued; simple posts
    cases.append(("case", ["pollone", "post 1", "pollone", "pollone", "post 2,3", "gpost 1 4", "pollone", "expectidle"]))
    # nested posts: depth 1..4, fan-out
    for depth in (1, 2, 3, 4):
        nid[0] = 100
        chain = ids(depth + 1)
        ops = ["def %d %d" % (chain[j], chain[j + 1]) for j in range(depth)]
        ops += ["post %d" % chain[0]] + ["pollone"] * (depth + 2) + ["expectidle"]
        cases.append(("case", ops))
        ops = ["def %d %d" % (chain[j], chain[j + 1]) for j in range(depth)]
        ops += ["gpost 2 %d" % chain[0]] + ["pollone"] * (depth + 2) + ["expectidle"]
        cases.append(("case", ops))
    cases.append(("case", ["def 1 2,3,4", "def 3 5,6", "post 1", "gpost 1 7", "pollone", "gpost 2 8", "pollone", "pollone", "pollone", "expectidle"]))
    # random mixes
    for _ in range(30 if q else 500):
        nid[0] = 1
        ops = []
        defs = {}
        allids = ids(rng.randint(3, 14))
        roots = []
        for h in allids:
            if roots and rng.random() < 0.4:
                parent = rng.choice(roots + list(defs.keys()))
                defs.setdefault(parent, []).append(h)
                defs.setdefault(h, [])
            else:
                roots.append(h)
        for h, ns in defs.items():
            if ns:
                ops.append("def %d %s" % (h, s(ns)))
        rng.shuffle(roots)
        while roots:
            k = rng.randint(1, min(3, len(roots)))
            grp, roots = roots[:k], roots[k:]
            if rng.random() < 0.4:
                ops.append("post %s" % s(grp))
            else:
                ops.append("gpost %d %s" % (rng.randint(1, 6), s(grp)))
            if rng.random() < 0.5:
                ops.append("pollone")
        ops += ["pollone"] * 8 + ["expectidle"]
        cases.append(("case", ops))
    return cases


def stress_cases(rng, q):
    cases = []
    for ng, m, nn in ([(1, 50, 0), (4, 100, 1), (8, 100, 2)] if q else
                      [(1, 50, 0), (2, 400, 0), (4, 100, 1), (8, 100, 2), (8, 400, 1), (3, 200, 2), (6, 300, 0), (8, 50, 2)]):
        for rep in range(1 if q else 4):
            cases.append(("case", ["stress %d %d %d %d" % (ng, m, nn, rng.randrange(1000)), "expectidle", "post 1", "pollone", "expectidle"]))
    # posts racing registrations the kernel refuses (their accounting is rolled back on the counter the posts increment)
    for rep in range(2 if q else 8):
        cases.append(("case", ["regrace %d %d" % (4, 20000 if q else 60000), "expectidle", "post 1", "pollone", "expectidle"]))
    # the loop blocked in epoll_wait, a post racing the dispatch of the previous one
    for rep in range(2 if q else 8):
        cases.append(("case", ["race %d %d %d" % (6000 if q else 60000, rng.choice([800, 1500, 3000]), rng.randrange(1000)), "expectidle"]))
    return cases


def generate(tier, seed):
    rng = random.Random(seed)
    q = tier == "quick"
    return [("deterministic", DRIVER, det_cases(rng, q)), ("concurrent", DRIVER, stress_cases(rng, q))]


def extra(tier, seed, bs):
    """thorough tier: the concurrent phases again under the Go race detector (a test, not a proof: it supplies the
    runtime witness for 'free of data races', which the transition system abstracts into atomic statements)."""
    import os
    import subprocess
    import vlib
    out = {"violations": [], "errors": [], "coverage": {}, "evaluations": 0}
    if tier != "thorough":
        out["coverage"]["race_detector"] = "not run in the quick tier"
        return out
    env = vlib.goenv()
    exe = os.path.join(vlib.BIN, "harness-race")
    p = subprocess.run(["go", "build", "-race", "-gcflags=all=-d=checkptr=0", "-tags", "verif", "-o", exe, "./cmd/harness"],
                       cwd=os.path.join(vlib.VERIF, "harness"), env=env, capture_output=True, text=True, timeout=1800)
    if p.returncode != 0:
        out["errors"].append("race build failed: " + p.stderr[-1500:])
        return out
    rng = random.Random(seed + 7)
    cases = stress_cases(rng, True) + det_cases(rng, True)[:20]
    text = vlib.cases_to_text(cases)
    p = subprocess.run([exe, "run", DRIVER], input=text, capture_output=True, text=True, timeout=1800, env=env)
    races = p.stderr.count("WARNING: DATA RACE")
    out["evaluations"] = sum(len(c[1]) for c in cases)
    out["coverage"]["race_detector"] = "go build -race (checkptr off): %d cases, %d race reports" % (len(cases), races)
    if races:
        first = p.stderr[p.stderr.index("WARNING: DATA RACE"):][:1800]
        out["violations"].append(dict(clause="race", attributes={"op": "stress"}, driver=DRIVER, header=cases[0][0], script=cases[0][1],
                                      detail=first, oracle=dict(clause="race", meaning=CLAUSES["race"])))
    try:
        os.remove(exe)
    except OSError:
        pass
    return out
