"""C06 WebSocket message delivery fidelity under fragmentation/segmentation."""
import random
from props.ws_streams import *  # noqa: F401,F403
from props import ws_streams as S

OWN = {"1", "8", "9", "panic"}
RULE = 'scripts: conforming sessions (text/binary, payload classes 0..200 and 65535/65536/max with lowered maximum, <=5 fragments, ping/pong between fragments) delivered under every 1- and 2-cut split of streams <= 40 bytes and random chunkings of longer ones, read with NextFrame, AsyncNextFrame, NextMessage, AsyncNextMessage; plus sampled violation/closing/write streams. distinct = (state, pending, buffered input, parked read) model states; non-trivial = input buffered across calls or a read parked'


def generate(tier, seed):
    rng = random.Random(seed)
    return S.all_streams(rng, tier == "quick", "C06")
