"""C14 inline completions never nest deeper than the dispatch limit."""
import random
from props.loop_streams import *  # noqa: F401,F403
from props import loop_streams as S

OWN = {"14", "15", "2", "panic"}
RULE = "chains of 32..200 immediately completable reads/writes re-issued from their own callbacks on socket, FIFO, regular file and round-robin over three objects, with the chain continued by the poller at the limit; depth measured by the harness' own counter"


def generate(tier, seed):
    rng = random.Random(seed)
    return S.all_streams(rng, tier == "quick", "C14")
