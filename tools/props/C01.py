"""C01 exactly-once completion of every asynchronous operation."""
import random
from props.loop_streams import *  # noqa: F401,F403
from props import loop_streams as S

OWN = {"1", "4", "5", "panic"}
RULE = 'scripts: poll batches with 3 ready descriptors x 9 handler programs (cancel/close/re-arm itself or another object, post) x which callback runs them; peer behaviours {data, half-close, close, RST, FIFO hang-up} with read/readall in flight; read+write in flight on one object; inline vs deferred forced through the dispatch counter; random histories over sock/FIFO/regular file objects. distinct = (pending, posts, interest bits, kernel readiness, timers) model states; non-trivial = more than one operation in flight or a poll batch with several entries'


def generate(tier, seed):
    rng = random.Random(seed)
    return S.all_streams(rng, tier == "quick", "C01")
