"""Shared script generators and clause tables for the WebSocket stream properties (C06 C08 C15 C16)."""
import itertools
import random

DRIVER = "ws"
CLAUSES = {
    "1": "delivered frame is not the next frame of the inbound byte stream (lost, duplicated, reordered or altered), or a read reported/withheld data wrongly",
    "2": "a frame violating the RFC 6455 framing rules was not reported as an error",
    "3": "wrong outcome for an oversized or incomplete frame/message (too big / need more / end of stream)",
    "4": "a frame on the wire is malformed (mask bit, masking key, shortest length encoding, reserved bits)",
    "5": "a frame on the wire is not the next frame owed (wrong payload/opcode/order, trailing bytes, a second Close, or data after Close)",
    "6": "State() does not reflect the stage of the session",
    "7": "a write was accepted although it must be refused, or refused although it must be accepted",
    "8": "message-level delivery differs from the reassembly of the frames (type, length, payload, order)",
    "9": "control callback did not see exactly the control frames between the fragments",
    "10": "a reply (Pong/Close) or accepted message was never written",
    "11": "data was delivered after the closing handshake completed",
    "12": "a fragmentation-rule violation or framing violation was not reported by the message-level API",
    "panic": "call panicked",
}
ASSUMPTIONS = ["client role, after a successful handshake (VerifAttach hook); in-memory transport (harness/drv/memstream.go)",
               "masking keys are taken from the implementation's own wire output (environment input of the model)"]


def hx(bs):
    return "".join("%02x" % (b & 255) for b in bs) if bs else "-"


def be(n, k):
    return [(n >> (8 * (k - 1 - i))) & 255 for i in range(k)]


def sframe(fin, op, payload, rsv=0, masked=False, force_len=None):
    """a frame as a server sends it (unmasked unless asked)"""
    n = len(payload) if force_len is None else force_len
    b0 = (0x80 if fin else 0) | (rsv << 4) | op
    m = 0x80 if masked else 0
    if n > 65535:
        h = [b0, m | 127] + be(n, 8)
    elif n > 125:
        h = [b0, m | 126] + be(n, 2)
    else:
        h = [b0, m | n]
    if masked:
        h += [1, 2, 3, 4]
        payload = [payload[i] ^ [1, 2, 3, 4][i % 4] for i in range(len(payload))]
    return h + list(payload)


def rnd_payload(rng, n):
    return [rng.randrange(256) for _ in range(n)]


def message_frames(rng, op, payload, nfrag, controls):
    """fragment a message into nfrag frames, with control frames between fragments"""
    n = len(payload)
    cuts = sorted(rng.sample(range(0, n + 1), min(nfrag - 1, n + 1))) if nfrag > 1 else []
    parts = []
    prev = 0
    for c in cuts + [n]:
        parts.append(payload[prev:c])
        prev = c
    frames = []
    for i, p in enumerate(parts):
        frames.append(sframe(i == len(parts) - 1, op if i == 0 else 0, p))
        if i < len(parts) - 1:
            for _ in range(controls):
                if rng.random() < 0.5:
                    frames.append(sframe(True, rng.choice([9, 10]), rnd_payload(rng, rng.choice([0, 1, 5]))))
    return frames


READ_APIS = ["nextframe", "anextframe", "nextmessage 200", "anextmessage 200"]


def chunk_ops(bs, cuts, reader, reads_per_chunk=3, tail_reads=3):
    ops = []
    prev = 0
    for c in list(cuts) + [len(bs)]:
        if c > prev:
            ops.append("in %s" % hx(bs[prev:c]))
            ops += [reader] * reads_per_chunk
            prev = c
    ops += [reader] * tail_reads
    return ops


def conforming_sessions(rng, q, mx=1024):
    """C06: conforming peers; every split of short streams + random chunkings of longer ones, all four read APIs"""
    cases = []
    sizes = [0, 1, 2, 5, 125, 126, 127, 200]
    for _ in range(40 if q else 200):
        nmsg = rng.randint(1, 3)
        frames = []
        for _ in range(nmsg):
            op = rng.choice([1, 2])
            payload = rnd_payload(rng, rng.choice([0, 1, 2, 3, 5]))
            frames += message_frames(rng, op, payload, rng.randint(1, 3), rng.choice([0, 1]))
            if rng.random() < 0.3:
                frames.append(sframe(True, 9, rnd_payload(rng, 2)))
        bs = sum(frames, [])
        if len(bs) <= 40:
            n = len(bs)
            cutsets = [[c] for c in range(1, n)]
            if not q:
                cutsets += [[a, b] for a in range(1, n) for b in range(a + 1, n)]
            else:
                cutsets += [sorted(rng.sample(range(1, n), 2)) for _ in range(8) if n > 2]
            for cuts in cutsets:
                for api in READ_APIS:
                    cases.append(("case max=%d" % mx, chunk_ops(bs, cuts, api, 2, nmsg + 3) + ["flush"]))
    for _ in range(25 if q else 400):
        frames = []
        nmsg = rng.randint(1, 4)
        for _ in range(nmsg):
            frames += message_frames(rng, rng.choice([1, 2]), rnd_payload(rng, rng.choice(sizes)), rng.randint(1, 5), rng.choice([0, 1, 2]))
        bs = sum(frames, [])
        k = rng.randint(0, 6)
        cuts = sorted(rng.sample(range(1, max(2, len(bs))), min(k, max(0, len(bs) - 1))))
        api = rng.choice(READ_APIS)
        cases.append(("case max=%d maxread=%d" % (mx, rng.choice([0, 1, 7])), chunk_ops(bs, cuts, api, rng.randint(1, 3), nmsg + 4) + ["flush"]))
    # length classes up to the maximum (max lowered to keep runs fast) incl. 65535/65536 and max itself
    for mxx, sz in ((70000, 65535), (70000, 65536), (70000, 70000), (300, 300), (126, 126)):
        for api in READ_APIS:
            api2 = api.replace("200", str(sz + 10))
            bs = sframe(True, 2, [(i * 7) & 255 for i in range(sz)])
            cut = rng.randint(1, len(bs) - 1)
            cases.append(("case max=%d" % mxx, ["in %s" % hx(bs[:cut]), api2, "in %s" % hx(bs[cut:]), api2, api2, "flush"]))
    return cases


def violation_frames(rng):
    p = rnd_payload(rng, 3)
    return {
        "rsv1": sframe(True, 1, p, rsv=4), "rsv2": sframe(True, 2, p, rsv=2), "rsv3": sframe(True, 9, p, rsv=1),
        "reserved-data-op": sframe(True, 3, p), "reserved-ctl-op": sframe(True, 11, p), "reserved-op-f": sframe(True, 15, p),
        "masked": sframe(True, 1, p, masked=True), "fragmented-ping": sframe(False, 9, p), "fragmented-close": sframe(False, 8, be(1000, 2)),
        "ping126": sframe(True, 9, rnd_payload(rng, 126)), "pong200": sframe(True, 10, rnd_payload(rng, 200)),
        "close126": sframe(True, 8, be(1000, 2) + [65] * 124),
    }


def violation_sessions(rng, q, mx=1024):
    """C15: every single-violation mutation at every position of a conforming session, split everywhere, all APIs"""
    cases = []
    vio = violation_frames(rng)
    base_sessions = [
        [sframe(True, 1, [104, 105])],
        [sframe(False, 2, [1, 2]), sframe(True, 0, [3])],
        [sframe(True, 9, [7]), sframe(True, 1, [1]), sframe(False, 1, [2]), sframe(True, 9, []), sframe(True, 0, [4])],
    ]
    for sess in base_sessions:
        for pos in range(len(sess) + 1):
            for name, vf in vio.items():
                frames = sess[:pos] + [vf] + sess[pos:]
                bs = sum(frames, [])
                n = len(bs)
                cutsets = [[]]
                if n <= 40:
                    cutsets += [[c] for c in range(1, n)] if not q else [[c] for c in sorted(rng.sample(range(1, n), min(4, n - 1)))]
                else:
                    cutsets += [sorted(rng.sample(range(1, n), 2))]
                for cuts in cutsets:
                    for api in (READ_APIS if not q else [rng.choice(READ_APIS), rng.choice(READ_APIS)]):
                        ops = chunk_ops(bs, cuts, api, 2, len(frames) + 2)
                        ops += ["write 1 aabb", "flush"]
                        cases.append(("case max=%d" % mx, ops))
    # fragmentation-rule violations (message level)
    frag = [
        [sframe(True, 0, [1])],                                   # continuation with nothing to continue
        [sframe(False, 0, [1]), sframe(True, 0, [2])],
        [sframe(False, 1, [1]), sframe(True, 2, [2])],             # new data frame inside a fragmented message
        [sframe(False, 1, [1]), sframe(False, 1, [2]), sframe(True, 0, [3])],
        [sframe(True, 1, [9]), sframe(True, 0, [1])],
        [sframe(False, 2, [1]), sframe(True, 9, [5]), sframe(True, 1, [2])],
    ]
    for frames in frag:
        bs = sum(frames, [])
        for cut in [0] + list(range(1, len(bs))):
            for api in READ_APIS:
                ops = chunk_ops(bs, [cut] if cut else [], api, 2, 3) + ["flush"]
                cases.append(("case max=%d" % mx, ops))
    # size limits: frame above max, message above max (fragments), buffer smaller than the message
    for api in READ_APIS:
        cases.append(("case max=10", ["in %s" % hx(sframe(True, 2, rnd_payload(rng, 11))), api, api, "flush"]))
        cases.append(("case max=10", ["in %s" % hx(sframe(False, 2, rnd_payload(rng, 8)) + sframe(True, 0, rnd_payload(rng, 8))), api, api, api, "flush"]))
        cases.append(("case max=100", ["in %s" % hx(sframe(True, 2, rnd_payload(rng, 30))), api.replace("200", "20"), api, "flush"]))
        cases.append(("case max=100", ["in 827f8000000000000001", api, api, "flush"]))
        cases.append(("case max=100", ["in 827e00c8", api, "in 01", api, "flush"]))
    return cases


PEER_EVENTS = {
    "data": lambda rng: ["in %s" % hx(sframe(True, 1, [104, 105]))],
    "ping": lambda rng: ["in %s" % hx(sframe(True, 9, rnd_payload(rng, 3)))],
    "ping0": lambda rng: ["in %s" % hx(sframe(True, 9, []))],
    "pong": lambda rng: ["in %s" % hx(sframe(True, 10, [1]))],
    "close1000": lambda rng: ["in %s" % hx(sframe(True, 8, be(1000, 2) + [98, 121, 101]))],
    "close3000": lambda rng: ["in %s" % hx(sframe(True, 8, be(3000, 2)))],
    "close-empty": lambda rng: ["in %s" % hx(sframe(True, 8, []))],
    "close-1byte": lambda rng: ["in %s" % hx(sframe(True, 8, [3]))],
    "close-badcode": lambda rng: ["in %s" % hx(sframe(True, 8, be(1005, 2)))],
    "close-badutf8": lambda rng: ["in %s" % hx(sframe(True, 8, be(1000, 2) + [0xC0, 0x80]))],
    "violation-rsv": lambda rng: ["in %s" % hx(sframe(True, 1, [1], rsv=4))],
    "violation-op": lambda rng: ["in %s" % hx(sframe(True, 5, [1]))],
    "violation-masked": lambda rng: ["in %s" % hx(sframe(True, 2, [1, 2], masked=True))],
    "violation-fragctl": lambda rng: ["in %s" % hx(sframe(False, 9, []))],
    "eof": lambda rng: ["ineof"],
    "err": lambda rng: ["inerr"],
}
LOCAL_CALLS = ["nextframe", "anextframe", "nextmessage 64", "anextmessage 64", "write 1 6869", "awrite 2 0102", "flush", "aflush",
               "close 1000 6279", "aclose 1001 -", "writeframe 1 9 01", "nextframe", "nextmessage 64"]
START_STATES = {
    "active": [],
    "closed-by-us": ["close 1000 -"],
    "closed-by-peer": ["in %s" % hx(sframe(True, 8, be(1000, 2))), "nextframe"],
    "close-acked": ["close 1000 -", "in %s" % hx(sframe(True, 8, be(1000, 2))), "nextframe"],
    "ping-pending": ["in %s" % hx(sframe(True, 9, [7, 7])), "nextframe"],
}


def closing_sequences(rng, q, depth, limit, mx=1024):
    """C08: sequences of peer events interleaved with local calls, from every state"""
    letters = [("p", k) for k in PEER_EVENTS] + [("l", c) for c in LOCAL_CALLS]
    cases = []
    for start, prefix in START_STATES.items():
        seqs = list(itertools.product(letters, repeat=depth))
        if len(seqs) > limit:
            seqs = rng.sample(seqs, limit)
        for seq in seqs:
            ops = list(prefix)
            for kind, x in seq:
                if kind == "p":
                    ops += PEER_EVENTS[x](rng)
                else:
                    ops.append(x)
            ops += [rng.choice(["nextframe", "anextframe", "nextmessage 64"]), "flush"]
            cases.append(("case max=%d" % mx, no_input_after_end(ops)))
    return cases


def random_sessions(rng, n, mx=1024):
    cases = []
    letters = [("p", k) for k in PEER_EVENTS] * 2 + [("l", c) for c in LOCAL_CALLS]
    for _ in range(n):
        ops = []
        for _ in range(rng.randint(4, 40)):
            kind, x = rng.choice(letters)
            if kind == "p":
                ev = PEER_EVENTS[x](rng)
                if ev[0].startswith("in ") and rng.random() < 0.3:
                    bs = ev[0][3:]
                    cut = rng.randrange(1, len(bs) // 2) * 2 if len(bs) > 2 else 0
                    if cut:
                        ops += ["in %s" % bs[:cut], rng.choice(LOCAL_CALLS[:4]), "in %s" % bs[cut:]]
                        continue
                ops += ev
            else:
                ops.append(x)
        ops.append("flush")
        cases.append(("case max=%d maxread=%d waccept=%d" % (mx, rng.choice([0, 1, 5]), rng.choice([0, 1, 3])), no_input_after_end(ops)))
    return cases


def write_sessions(rng, q):
    """C16: all payload sizes and types, pooled frames reused after longer and shorter ones, caller-built frames with and
    without payload, automatic Pong/Close, blocking and asynchronous, partial-write transports"""
    cases = []
    sizes = [0, 1, 2, 125, 126, 127, 300, 65535, 65536, 70000, 70001]
    for waccept in (0, 1, 7):
        for w in ("write", "awrite"):
            ops = []
            order = sizes[:] if waccept == 0 else [0, 1, 125, 126, 127, 300]
            rng.shuffle(order)
            for sz in order:
                ops.append("%s %d pat:%d:%d" % (w, rng.choice([1, 2]), sz, rng.randrange(256)))
            ops.append("flush")
            cases.append(("case max=70000 waccept=%d" % waccept, ops))
    # caller-built frames, with and without payload, after longer and shorter frames
    for w in ("writeframe", "awriteframe"):
        for pre in (0, 5, 200):
            for op in (9, 10, 1, 2):
                ops = ["write 2 pat:%d:1" % pre, "%s 1 %d none" % (w, op), "%s 1 %d 0a0b" % (w, op), "%s 1 %d none" % (w, 9),
                       "write 1 pat:3:9", "%s 0 1 pat:130:4" % w, "%s 1 0 none" % w, "flush"]
                cases.append(("case max=1024 waccept=%d" % rng.choice([0, 2]), ops))
    # a draft payload replaced before the frame is submitted (SetPayload twice), every length class to every length class
    for w in ("writeframe2", "awriteframe2"):
        for draft in (0, 5, 100, 125, 126, 300, 70000):
            ops = []
            for real in (0, 1, 5, 125, 126, 300):
                ops.append("%s 1 %d %d pat:%d:%d" % (w, rng.choice([1, 2]), draft, real, rng.randrange(256)))
            ops.append("flush")
            cases.append(("case max=100000 waccept=%d" % rng.choice([0, 3]), ops))
    # automatic replies interleaved with writes
    for _ in range(10 if q else 200):
        ops = []
        for _ in range(rng.randint(3, 12)):
            r = rng.random()
            if r < 0.3:
                ops += ["in %s" % hx(sframe(True, 9, rnd_payload(rng, rng.choice([0, 1, 125])))), rng.choice(["nextframe", "anextframe"])]
            elif r < 0.8:
                ops.append("%s %d pat:%d:%d" % (rng.choice(["write", "awrite"]), rng.choice([1, 2]), rng.choice([0, 1, 125, 126, 300]), rng.randrange(256)))
            else:
                ops.append("%s 1 %d %s" % (rng.choice(["writeframe", "awriteframe"]), rng.choice([9, 10, 2]), rng.choice(["none", "0102", "pat:126:3"])))
        ops += ["in %s" % hx(sframe(True, 8, be(1000, 2))), "nextframe", "write 1 aa", "flush"]
        cases.append(("case max=1024 waccept=%d" % rng.choice([0, 1, 4]), ops))
    # failing transport at every offset of a frame (the stream is dead afterwards)
    for k in range(0, 12):
        cases.append(("case max=1024", ["write 1 0102", "wfail %d" % k, "write 2 a1a2a3a4a5", "nextframe"]))
        cases.append(("case max=1024", ["wfail %d" % k, "awrite 2 a1a2a3a4a5", "anextframe"]))
    return cases


def no_input_after_end(ops):
    """the scripted transport delivers nothing after EOF / a transport error: drop later inbound data"""
    out = []
    ended = False
    for o in ops:
        if o in ("ineof", "inerr"):
            if ended:
                continue
            ended = True
        elif o.startswith("in ") and ended:
            continue
        out.append(o)
    return out


def attrs(o, case):
    return {"op": o["op"].split()[0]}
