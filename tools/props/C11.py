"""C11 MirroredBuffer: generators (reachable cursor states for several sizes x boundary amounts; random long)."""
import random

DRIVER = "mirrored"
PAGE = 4096
RULE = ("scripts: for requested sizes {1, page-1, page, page+1, 2,3,4,5,8 (,32) pages} every reachable cursor state "
        "(generator-side BFS) x {claim,commit,consume} x amounts {0,1,page-1,page,free,free+1,used,used+1,size+1}, reset, "
        "each followed by fill/commit/dump and destroy; + random long histories. distinct = (size, head, tail, used, live "
        "claim) model states; non-trivial = queued bytes wrap around the end of the ring")
EXHAUSTIVE = {"quick": False, "thorough": False}
CLAUSES = {
    "1": "claim length != min(n, free) or outside [0, 2*size)", "2": "claim does not start at the ring position after the last commit",
    "3": "claim aliases a committed-but-unconsumed byte", "4": "Commit returned != min(n, free)",
    "5": "used + free != size, or used != queued bytes, or Size() changed", "6": "Consume returned != min(n, used)",
    "7": "queued bytes changed before being consumed", "8": "Size() is not the smallest positive page multiple >= request / constructor rejected a positive size",
    "9": "Destroy left a mapping or the backing file behind", "10": "bytes written through a claim are not mirrored",
    "panic": "operation panicked",
}
ASSUMPTIONS = ["amounts are non-negative", "page size 4096 (checked against the implementation's Size())",
               "mmap(MAP_FIXED|MAP_SHARED) aliasing is an environment assumption of the model; it is observed by the harness (mirror=1), not proved"]


def attrs(o, case):
    return {"op": o["op"].split()[0]}


def rounded(req):
    r = req % PAGE
    return req + (PAGE - r) if r > 0 else req


def amounts(size, used):
    free = size - used
    return sorted(set([0, 1, PAGE - 1, PAGE, free, free + 1, used, used + 1, size + 1]))


def sim(size, st, op, n):
    head, tail, used = st
    if op == "commit":
        k = min(n, size - used)
        return (head, (tail + k) % size, used + k)
    if op == "consume":
        k = min(n, used)
        return ((head + k) % size, tail, used - k)
    if op == "reset":
        return (0, 0, 0)
    return st


def with_fill(ops):
    out = ["new"]
    k = 1
    for o in ops:
        out.append(o)
        if o.startswith("claim"):
            out.append("fill %d" % k)
            k = (k * 7 + 13) % 250 + 1
    return out


def tailops(size):
    return ["claim %d" % (PAGE + 3), "fill 77", "commit %d" % (PAGE + 3), "dump", "consume 5", "claim %d" % (size + 1), "fill 99",
            "dump", "commit 1", "dump", "destroy"]


def bfs_cases(req, limit):
    size = rounded(req)
    start = (0, 0, 0)
    path = {start: []}
    queue = [start]
    cases = []
    while queue and len(cases) < limit:
        st = queue.pop(0)
        for n in amounts(size, st[2]):
            for op in ("claim", "commit", "consume"):
                line = "%s %d" % (op, n)
                script = path[st] + ([line] if op != "commit" else ["claim %d" % n, line])
                cases.append(("case req=%d" % req, with_fill(script) + tailops(size)))
                ns = sim(size, st, op, n)
                if ns not in path:
                    path[ns] = script
                    queue.append(ns)
    return cases


def random_case(rng, req, length):
    size = rounded(req)
    ops = []
    used = 0
    for _ in range(length):
        r = rng.random()
        free = size - used
        if r < 0.45:
            n = rng.choice([0, 1, rng.randint(0, size), free, free + 1, PAGE - 1, PAGE, rng.randint(0, 64)])
            ops.append("claim %d" % n)
            m = rng.choice([n, n, rng.randint(0, n + 1), 0])
            ops.append("commit %d" % m)
            used += min(m, free)
        elif r < 0.9:
            n = rng.choice([0, 1, rng.randint(0, size), used, used + 1, PAGE - 1, rng.randint(0, 64)])
            ops.append("consume %d" % n)
            used -= min(n, used)
        elif r < 0.98:
            ops.append("dump")
        else:
            ops.append("reset")
            used = 0
    return ("case req=%d" % req, with_fill(ops) + ["dump", "destroy"])


CORPUS = [
    ("case req=12288", ["new", "claim 4096", "fill 1", "commit 4096", "claim 4096", "fill 2", "dump", "commit 4096", "dump", "destroy"]),
    ("case req=0", ["new"]),
    ("case req=-5", ["new"]),
]


def generate(tier, seed):
    rng = random.Random(seed)
    streams = [("corpus", DRIVER, CORPUS)]
    reqs = [1, PAGE - 1, PAGE, PAGE + 1, 2 * PAGE, 3 * PAGE, 4 * PAGE, 5 * PAGE, 8 * PAGE]
    if tier == "thorough":
        reqs += [6 * PAGE, 7 * PAGE, 32 * PAGE]
    bfs = []
    for req in reqs:
        bfs.extend(bfs_cases(req, 250 if tier == "quick" else (3000 if req <= 8 * PAGE else 150)))
    streams.append(("bfs", DRIVER, bfs))
    # the 32-page ring makes every fill/dump a 128 KiB list in the model: a few long histories on it are enough
    small = [r for r in reqs if r <= 8 * PAGE]
    rnd = [random_case(rng, rng.choice(small if rng.random() < 0.97 else reqs), rng.randint(5, 60)) for _ in range(150 if tier == "quick" else 1500)]
    streams.append(("random", DRIVER, rnd))
    return streams
