"""C08 WebSocket ping/pong and closing handshake."""
import random
from props.ws_streams import *  # noqa: F401,F403
from props import ws_streams as S

OWN = {"5", "6", "7", "10", "11", "panic"}
RULE = 'scripts: sequences (length 2 and 3 sampled, thorough also 4; random up to 40) over 16 peer events {data, ping, pong, valid/empty/1-byte/bad-code/bad-utf8 close, 4 kinds of violation, EOF, transport error} and 13 local calls {read frame/message blocking/async, write, flush, close, caller-built ping} from 5 start states; plus sampled conforming/violation/write streams; plus AsyncClose with its flush deferred on the real adapter (real socket) followed by writes / a second close before the poll. distinct = model states; non-trivial = not (Active with nothing pending)'


def generate(tier, seed):
    rng = random.Random(seed)
    # the closing handshake started locally while the Close frame's flush is still in the poller: only the real adapter defers
    # writes, so these scripts run on the real-socket driver of C17 (its clause 6: a write accepted / a second Close queued /
    # data after our Close while State() should already say closed-by-us)
    from props import C17
    return S.all_streams(rng, tier == "quick", "C08") + [("close-in-flight", "wsasync", C17.close_cases())]
