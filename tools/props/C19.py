"""C19 CodecConn + length-prefixed frame codec: segmentation at every offset, would-block mid-item, hostile prefixes."""
import random

DRIVER = "codecconn"
RULE = ("scripts: payload sequences with sizes {0,1,3,4,5,511,512,513,70000} encoded and delivered (a) cut at every offset "
        "(1 cut) and at random multi-cuts, with per-read limits 1,2,3,7; (b) would-block in the middle of an item for "
        "sync and async reads; EOF/error mid-item; (c) hostile prefixes {2^30, 2^30+1, 2^32-1} and random bytes; (d) writes: "
        "sync/async, partial-accept transports (1,2,5 bytes per call), failure after k bytes for every k, parked async "
        "writes; (e) the same CodecConn over a real sonic.Conn (loopback TCP, 16 KiB send buffer): items of 300 KB..4 MB between "
        "small ones, final outcomes only. distinct = (readable, pending, decodeReset, parked read/write) model states; non-trivial = an item is "
        "outstanding while more bytes are buffered")
EXHAUSTIVE = {"quick": False, "thorough": False}
CLAUSES = {"1": "delivered item is not the next payload of the byte stream", "2": "an item was delivered that the stream does not contain",
           "3": "bytes on the wire after a successful write are not the encoded item", "4": "part of the item was left behind in the buffer after a successful write",
           "5": "buffered for a declared length above the limit", "panic": "call panicked"}
ASSUMPTIONS = ["the transport is the scripted in-memory stream of the harness (conforming io.Reader/io.Writer)"]


def attrs(o, case):
    op = o["op"].split()[0]
    return {"op": {"writepat": "writenext", "awritepat": "awritenext"}.get(op, op)}


def hx(bs):
    return "".join("%02x" % (b & 255) for b in bs) if bs else "-"


def enc(p):
    n = len(p)
    return [(n >> 24) & 255, (n >> 16) & 255, (n >> 8) & 255, n & 255] + p


def payloads(rng, sizes):
    return [[rng.randrange(256) for _ in range(s)] for s in sizes]


def read_cases(rng, q):
    cases = []
    # every single cut of short streams, sync and async, several per-read limits
    for sizes in ([0], [1], [3, 0, 5], [4, 4], [5, 1, 0, 2]):
        ps = payloads(rng, sizes)
        bs = sum((enc(p) for p in ps), [])
        for cut in range(0, len(bs) + 1):
            for mode in ("readnext", "areadnext"):
                for maxread in ((0, 1, 3) if not q else (0, 2)):
                    ops = []
                    if cut > 0:
                        ops.append("in %s" % hx(bs[:cut]))
                    ops += [mode] * 2
                    if cut < len(bs):
                        ops.append("in %s" % hx(bs[cut:]))
                    ops += [mode] * (len(ps) + 2)
                    ops += ["ineof", mode, mode]
                    cases.append(("case maxread=%d" % maxread, ops))
    # large items and random multi-cuts
    for _ in range(20 if q else 300):
        sizes = [rng.choice([0, 1, 3, 4, 5, 511, 512, 513] + ([70000] if rng.random() < 0.1 else [])) for _ in range(rng.randint(1, 5))]
        ps = payloads(rng, sizes)
        bs = sum((enc(p) for p in ps), [])
        k = rng.randint(0, 5)
        cuts = sorted(rng.sample(range(1, max(2, len(bs))), min(k, max(0, len(bs) - 1))))
        ops = []
        prev = 0
        mode = rng.choice(["readnext", "areadnext"])
        for cpos in cuts + [len(bs)]:
            if cpos > prev:
                ops.append("in %s" % hx(bs[prev:cpos]))
                ops += [mode] * rng.randint(0, 3)
                prev = cpos
        ops += [mode] * (len(ps) + 1)
        ops += [rng.choice(["ineof", "inerr"]), mode, mode]
        cases.append(("case maxread=%d" % rng.choice([0, 1, 7, 100]), ops))
    # hostile prefixes and random bytes
    for pre in ((1 << 30) + 1, (1 << 32) - 1, 1 << 31, (1 << 30) + (1 << 20)):
        h = [(pre >> 24) & 255, (pre >> 16) & 255, (pre >> 8) & 255, pre & 255]
        for mode in ("readnext", "areadnext"):
            cases.append(("case", ["in %s" % hx(h[:2]), mode, "in %s" % hx(h[2:] + [1, 2, 3]), mode, mode, "in 0000000101", mode]))
    for _ in range(50 if q else 1000):
        bs = [rng.choice([0, 0, 0, 1, 2, 3]) if (j % 4) < 2 else rng.choice([0, 1, 2, 64, 255, rng.randrange(256)]) for j in range(rng.randint(1, 24))]
        mode = rng.choice(["readnext", "areadnext"])
        cut = rng.randint(0, len(bs))
        cases.append(("case maxread=%d" % rng.choice([0, 1, 3]), ["in %s" % hx(bs[:cut]), mode, "in %s" % hx(bs[cut:]), mode, mode, mode, "ineof", mode]))
    return cases


def write_cases(rng, q):
    cases = []
    sizes_all = [0, 1, 3, 4, 5, 511, 512, 513]
    for waccept in (0, 1, 2, 5):
        for mode in ("writepat", "awritepat"):
            ops = []
            for s in sizes_all + [70000]:
                ops.append("%s %d %d" % (mode, s, rng.randrange(256)))
            cases.append(("case waccept=%d" % waccept, ops))
    # failure after k bytes for every k of a 9-byte item, then recovery
    for mode in ("writenext", "awritenext"):
        for k in range(0, 11):
            ops = ["%s 0102030405" % mode, "wfail %d" % k, "%s a1a2a3a4a5" % mode, "wfail -1", "%s b1b2" % mode, "%s -" % mode]
            cases.append(("case waccept=%d" % rng.choice([0, 1, 3]), ops))
    # parked asynchronous writes
    for _ in range(10 if q else 100):
        ops = ["wblock", "awritepat %d %d" % (rng.choice(sizes_all), rng.randrange(256)), "in 00000001aa", "areadnext", "wunblock",
               "awritepat %d %d" % (rng.choice(sizes_all), rng.randrange(256)), "writepat 3 7"]
        cases.append(("case waccept=%d" % rng.choice([0, 2]), ops))
    # the same CodecConn over a real sonic.Conn (loopback TCP, small send buffer): a large item goes out in many kernel segments,
    # with would-block in the middle of the item several times; small items before and after it must keep their places
    for size in ([300000] if q else [300000, 1000000, 4000000]):
        ops = ["awritepat 5 1", "awritepat %d %d" % (size, rng.randrange(256)), "awritepat 3 9", "in 00000002aabb", "areadnext"]
        cases.append(("case real=1", ops))
    # interleaved both directions
    for _ in range(20 if q else 300):
        ops = []
        for _ in range(rng.randint(3, 12)):
            r = rng.random()
            if r < 0.3:
                p = [rng.randrange(256) for _ in range(rng.choice([0, 1, 4, 9]))]
                bs = enc(p)
                cut = rng.randint(0, len(bs))
                ops += ["in %s" % hx(bs[:cut]), rng.choice(["readnext", "areadnext"]), "in %s" % hx(bs[cut:]), "readnext"]
            elif r < 0.7:
                ops.append("%s %d %d" % (rng.choice(["writepat", "awritepat"]), rng.choice(sizes_all), rng.randrange(256)))
            else:
                ops.append(rng.choice(["readnext", "areadnext"]))
        cases.append(("case waccept=%d maxread=%d" % (rng.choice([0, 1, 4]), rng.choice([0, 1, 5])), ops))
    return cases


def generate(tier, seed):
    rng = random.Random(seed)
    q = tier == "quick"
    return [("reads", DRIVER, read_cases(rng, q)), ("writes", DRIVER, write_cases(rng, q))]
