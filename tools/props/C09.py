"""C09 ByteBuffer: generators over the whole public API with boundary integer arguments."""
import random

DRIVER = "bb"
MAXI = 9223372036854775807
MINI = -9223372036854775808
RULE = ("scripts: corpus + every sequence of <=2 operations over the full alphabet (every public method x arguments "
        "{-1,0,1,2,exact,exact+1,2^62,MaxInt64-1,MaxInt64,MinInt64}) from 4 start states + random histories of 10-150 "
        "calls incl. growth across reallocation and scripted readers/writers (short, zero, error). distinct = model states "
        "(si,ri,wi,bytes); non-trivial = all three regions non-empty")
EXHAUSTIVE = {"quick": False, "thorough": False}
CLAUSES = {"1": "return value differs from the three-FIFO specification", "2": "saved region differs (bytes lost, duplicated, reordered or changed)",
           "3": "readable region differs", "4": "written-but-uncommitted region differs", "5": "region lengths do not add up to Len() / getters disagree with regions",
           "6": "Reserved() differs from the specification", "7": "WriteTo handed the writer bytes that are not the readable bytes in order",
           "panic": "call panicked"}
ASSUMPTIONS = ["Reserve is called with n <= 2^20 (an allocation request the runtime can satisfy); every other argument ranges over all int64 values",
               "readers/writers passed to ReadFrom/WriteTo conform to io.Reader/io.Writer (0 <= n <= len(p))",
               "callers fill a slice obtained from ClaimFixed completely before the bytes are committed"]


def attrs(o, case):
    return {"op": o["op"].split()[0]}


class Sim:
    """generator-side length tracker (guidance for 'exact' arguments only)"""
    def __init__(self):
        self.s = self.r = self.p = 0
        self.room = 512

    def apply(self, line):
        f = line.split()
        op = f[0]
        g = lambda i: int(f[i])
        cl = lambda n, hi: max(0, min(n, hi))
        if op == "reserve":
            if g(1) > self.room and g(1) < (1 << 40):
                self.room = g(1)
        elif op == "commit":
            k = cl(g(1), self.p); self.r += k; self.p -= k
        elif op == "consume":
            k = cl(g(1), self.r); self.r -= k; self.room += k
        elif op == "save":
            k = cl(g(1), self.r); self.s += k; self.r -= k
        elif op == "discard":
            i, l = g(1), g(2)
            if i >= 0 and l > 0 and i + l <= self.s:
                self.s -= l; self.room += l
        elif op == "discardall":
            self.room += self.s; self.s = 0
        elif op == "reset":
            self.room += self.s + self.r + self.p; self.s = self.r = self.p = 0
        elif op == "read":
            k = cl(g(1), self.r); self.r -= k; self.room += k
        elif op == "readbyte":
            k = cl(1, self.r); self.r -= k; self.room += k
        elif op in ("readfrom", "asyncreadfrom"):
            n = len(f[1]) // 2 if f[1] != "-" else 0
            k = cl(min(g(2), n), self.room)
            if f[3] == "0":
                self.p += k; self.room -= k
        elif op == "unreadbyte":
            if self.p > 0:
                self.p -= 1; self.room += 1
        elif op in ("write", "writestring", "writebyte"):
            n = len(f[1]) // 2 if f[1] != "-" else 0
            self.p += n
            self.room = self.room - n if n <= self.room else max(0, self.room)
        elif op == "writeto":
            self.room += self.r; self.r = 0  # approximation
        elif op == "asyncwriteto":
            if f[2] == "0":
                k = cl(g(1), self.r); self.r -= k; self.room += k
        elif op == "prepareread":
            need = g(1) - self.r
            if 0 < need <= self.p:
                self.r += need; self.p -= need
        elif op == "claim":
            n = g(2)
            if 0 <= n <= self.room:
                self.p += n; self.room -= n
        elif op == "claimfixed":
            n = g(1)
            if 0 <= n <= self.room:
                self.p += n; self.room -= n
        elif op == "shrinkby":
            k = cl(g(1), self.p); self.p -= k; self.room += k
        elif op == "shrinkto":
            k = cl(self.p - g(1), self.p); self.p -= k; self.room += k


def hexbytes(rng, n):
    return "".join("%02x" % rng.randrange(256) for _ in range(n)) if n > 0 else "-"


def alphabet(sim, rng, full):
    ints = [-1, 0, 1, 2, MAXI, MINI] + ([3, 5, 1 << 62, MAXI - 1] if full else [])
    ops = []
    for n in sorted(set(ints + [sim.p, sim.p + 1])):
        ops.append("commit %d" % n)
        ops.append("shrinkby %d" % n)
        ops.append("shrinkto %d" % n)
    for n in sorted(set(ints + [sim.r, sim.r + 1])):
        ops.append("consume %d" % n)
        ops.append("save %d" % n)
        ops.append("prepareread %d" % n)
        ops.append("asyncwriteto %d 0" % n)
    ops.append("prepareread %d" % (sim.r + sim.p))
    ops.append("prepareread %d" % (sim.r + sim.p + 1))
    for n in sorted(set([0, 1, 2, sim.r, sim.r + 1, 600])):
        ops.append("read %d" % n)
    for n in sorted(set(ints + [sim.room, sim.room + 1])):
        ops.append("claim %d %d" % (rng.randrange(256), n))
        ops.append("claimfixed %d %d" % (n, rng.randrange(256)))
    for n in [-1, 0, 1, 2, sim.room, sim.room + 1, 600, 5000]:
        ops.append("reserve %d" % n)
    slots = [(0, sim.s), (0, 1), (1, 1), (sim.s, 1), (sim.s - 1, 1), (0, sim.s + 1), (-1, 1), (0, -1), (1, sim.s), (MAXI, 1), (1, MAXI),
             (MAXI, MAXI), (MINI, 1), (0, MAXI), (sim.s, 0), (2, 1)]
    for i, l in slots:
        ops.append("savedslot %d %d" % (i, l))
        ops.append("discard %d %d" % (i, l))
    ops += ["discardall", "reset", "readbyte", "unreadbyte", "observe"]
    for n in (0, 1, 3):
        ops.append("write %s" % hexbytes(rng, n))
    ops.append("writestring %s" % hexbytes(rng, 2))
    ops.append("writebyte %s" % hexbytes(rng, 1))
    ops.append("write %s" % hexbytes(rng, sim.room + 1 if sim.room < 2000 else 700))
    for (w, n, e) in [(3, 3, 0), (3, 2, 0), (0, 0, 0), (4, 4, 1), (2, 5, 0), (2, -1, 0), (sim.room + 2 if sim.room < 3000 else 10, sim.room + 2, 0)]:
        ops.append("readfrom %s %d %d" % (hexbytes(rng, w), n, e))
    ops.append("asyncreadfrom %s 2 0" % hexbytes(rng, 2))
    ops.append("asyncreadfrom %s 2 1" % hexbytes(rng, 2))
    r = sim.r
    ops.append("writeto %d:0" % r if r else "writeto -")
    ops.append("writeto 1:0,%d:0" % max(0, r - 1))
    ops.append("writeto 1:0,1:1")
    ops.append("writeto 0:1")
    ops.append("writeto 1:0,0:0,%d:0" % max(0, r - 1))
    ops.append("asyncwriteto %d 1" % r)
    return ops


STARTS = [
    [],
    ["write 0102030405", "commit 3"],
    ["write 0102030405060708", "commit 6", "save 2", "save 1"],
    ["write 01020304", "commit 4", "save 4", "write 0a0b", "commit 1", "claimfixed 2 200"],
]


def replay(prefix):
    sim = Sim()
    for l in prefix:
        sim.apply(l)
    return sim


def exhaustive(rng, depth, full):
    cases = []
    for start in STARTS:
        sim0 = replay(start)
        for o1 in alphabet(sim0, rng, full):
            if depth == 1:
                cases.append(("case", start + [o1, "observe"]))
                continue
            sim1 = replay(start + [o1])
            for o2 in alphabet(sim1, rng, False):
                cases.append(("case", start + [o1, o2, "observe"]))
    return cases


def random_case(rng, length):
    sim = Sim()
    ops = []
    for _ in range(length):
        r = rng.random()
        if r < 0.25:
            n = rng.choice([1, 2, 3, 8, 17, 100, 600])
            line = "write %s" % hexbytes(rng, n)
        elif r < 0.4:
            line = "commit %d" % rng.choice([sim.p, 1, 2, rng.randint(0, sim.p + 2), MAXI])
        elif r < 0.5:
            line = "save %d" % rng.choice([1, 2, sim.r, rng.randint(0, sim.r + 1)])
        elif r < 0.6 and sim.s > 0:
            i = rng.randint(0, sim.s - 1)
            line = "discard %d %d" % (i, rng.randint(1, sim.s - i))
        elif r < 0.7:
            line = "consume %d" % rng.choice([1, 2, sim.r, rng.randint(0, sim.r + 1)])
        else:
            line = rng.choice(alphabet(sim, rng, False))
        ops.append(line)
        sim.apply(line)
    return ("case", ops + ["observe"])


CORPUS = [
    ("case", ["write 010203", "commit 9223372036854775807", "observe", "consume 1", "observe"]),
    ("case", ["write 010203", "commit 3", "save 2", "discard 1 5", "observe"]),
    ("case", ["write 010203", "commit 3", "save 2", "savedslot 1 5", "savedslot -1 1", "savedslot 9223372036854775807 9223372036854775807"]),
    ("case", ["claimfixed 9223372036854775807 1", "observe", "write 01", "claim 7 9223372036854775807", "observe"]),
    ("case", ["write 0102", "commit 2", "save 2", "readbyte", "read 3", "observe"]),
    ("case", ["write 0102", "commit 2", "readbyte", "save 1", "readbyte", "observe"]),
    ("case", ["write 010203", "commit 3", "save 1", "discard 0 1", "discard 0 1", "observe"]),
]


def generate(tier, seed):
    rng = random.Random(seed)
    streams = [("corpus", DRIVER, CORPUS)]
    streams.append(("exhaustive1", DRIVER, exhaustive(rng, 1, True)))
    if tier == "thorough":
        streams.append(("exhaustive2", DRIVER, exhaustive(rng, 2, True)))
    else:
        ex2 = exhaustive(rng, 2, False)
        rng.shuffle(ex2)
        streams.append(("exhaustive2-sample", DRIVER, ex2[:6000]))
    nr = 300 if tier == "quick" else 5000
    streams.append(("random", DRIVER, [random_case(rng, rng.randint(10, 150)) for _ in range(nr)]))
    return streams
