"""C07 WebSocket frame decoder: malformed headers x boundary lengths x every split point; random bytes; encoder round trips."""
import random

DRIVER = "wscodec"
RULE = ("scripts: (a) every first header byte class x length fields from {0,1,125,126 with ext 0/125/126/65535, 127 with ext "
        "0/65535/65536/max/max+1/2^31/2^63-1/2^63/2^64-1} x masked/unmasked, fed at every split point (1 or 2 cuts) with a "
        "decode after every feed; (b) random byte strings in random chunks; (c) well-formed multi-frame streams cut at every "
        "offset; (d) encoder round trips over FIN x RSV x opcode x mask x length classes. distinct = (readable, pending, "
        "decodeReset) model states; non-trivial = a decoded frame is outstanding while more bytes are buffered behind it")
EXHAUSTIVE = {"quick": False, "thorough": False}
CLAUSES = {"1": "decoder did not ask for more bytes although the frame is incomplete", "2": "declared payload above the maximum was not rejected",
           "3": "yielded frame is not exactly the next frame's bytes (lost sync / wrong offset / negative length)",
           "4": "decoder continued after a fatal error", "5": "buffered for more than the configured maximum",
           "6": "decode(encode(frame)) is not the identical frame", "panic": "decoder or frame accessor panicked"}
ASSUMPTIONS = ["bytes reach the codec through ByteBuffer.Write/ReadFrom (C09 refinement theorem)"]
MAXS = [125, 1024, 70000]


def attrs(o, case):
    return {"op": o["op"].split()[0]}


def hx(bs):
    return "".join("%02x" % (b & 255) for b in bs) if bs else "-"


def be(n, k):
    return [(n >> (8 * (k - 1 - i))) & 255 for i in range(k)]


def header_variants(mx):
    out = []
    b0s = [0x81, 0x82, 0x01, 0x80, 0x89, 0x8A, 0x88, 0xF1, 0x83, 0x8F, 0x00, 0x09]
    lens = [(0, []), (1, []), (125, []), (126, be(0, 2)), (126, be(125, 2)), (126, be(126, 2)), (126, be(65535, 2)),
            (127, be(0, 8)), (127, be(65535, 8)), (127, be(65536, 8)), (127, be(mx, 8)), (127, be(mx + 1, 8)),
            (127, be(1 << 31, 8)), (127, be((1 << 63) - 1, 8)), (127, be(1 << 63, 8)), (127, be((1 << 64) - 1, 8)),
            (127, be((1 << 63) + 5, 8)), (126, be(mx, 2) if mx < 65536 else be(65535, 2))]
    for b0 in b0s:
        for l7, ext in lens:
            for masked in (0, 1):
                out.append([b0, (masked << 7) | l7] + ext + ([0x11, 0x22, 0x33, 0x44] if masked else []))
    return out


def split_cases(mx, rng, limit):
    cases = []
    hs = header_variants(mx)
    rng.shuffle(hs)
    for h in hs[:limit]:
        tail = [rng.randrange(256) for _ in range(6)]
        bs = h + tail
        n = len(bs)
        # every single cut
        for cut in range(0, n + 1):
            ops = []
            if cut > 0:
                ops += ["feed %s" % hx(bs[:cut]), "decode"]
            if cut < n:
                ops += ["feed %s" % hx(bs[cut:]), "decode"]
            ops += ["decode", "feed 8100", "decode", "decode"]
            cases.append(("case max=%d" % mx, ops))
    return cases


def wellformed_stream(rng, mx, nframes):
    bs = []
    for _ in range(nframes):
        plen = rng.choice([0, 1, 2, 5, 125, 126, 127, 300, min(mx, 65535), min(mx, 65536)])
        if plen > mx:
            plen = mx
        op = rng.choice([1, 2, 0, 9, 10, 8])
        fin = rng.choice([0x80, 0x80, 0])
        masked = rng.random() < 0.3
        if plen > 65535:
            hdr = [fin | op, (0x80 if masked else 0) | 127] + be(plen, 8)
        elif plen > 125:
            hdr = [fin | op, (0x80 if masked else 0) | 126] + be(plen, 2)
        else:
            hdr = [fin | op, (0x80 if masked else 0) | plen]
        if masked:
            hdr += [rng.randrange(256) for _ in range(4)]
        bs += hdr + [rng.randrange(256) for _ in range(plen)]
    return bs


def chunked(bs, cuts):
    ops = []
    prev = 0
    for c in list(cuts) + [len(bs)]:
        if c > prev:
            ops.append("feed %s" % hx(bs[prev:c]))
            ops += ["decode", "decode"]
            prev = c
    ops += ["decode", "decode"]
    return ops


def roundtrips(rng, mx, full):
    ops_all = []
    lens = [0, 1, 125, 126, 127, 65535, 65536, mx, mx + 1]
    lens = sorted(set(l for l in lens if l <= 70001))
    opcodes = range(16) if full else [0, 1, 2, 8, 9, 10, 3, 15]
    for fin in (0, 1):
        for rsv in (range(8) if full else (0, 1, 7)):
            for op in opcodes:
                for masked in (0, 1):
                    plen = rng.choice(lens)
                    key = hx([rng.randrange(256) for _ in range(4)]) if masked else "-"
                    ops_all.append("roundtrip %d %d %d %d %s %d %d" % (fin, rsv, op, masked, key, plen, rng.randrange(256)))
    for plen in lens:
        for masked in (0, 1):
            key = hx([rng.randrange(256) for _ in range(4)]) if masked else "-"
            ops_all.append("roundtrip 1 0 2 %d %s %d %d" % (masked, key, plen, rng.randrange(256)))
    cases = []
    for i in range(0, len(ops_all), 6):
        cases.append(("case max=%d" % mx, ops_all[i:i + 6]))
    return cases


CORPUS = [
    ("case max=1024", ["feed 827fffffffffffffff0102", "decode", "decode"]),
    ("case max=1024", ["feed 827f8000000000000000", "decode", "feed 0102", "decode"]),
    ("case max=125", ["feed 817e007e", "decode", "decode"]),
    ("case max=1024", ["feed 8102aabb8101cc", "decode", "decode", "decode"]),
]


def generate(tier, seed):
    rng = random.Random(seed)
    q = tier == "quick"
    streams = [("corpus", DRIVER, CORPUS)]
    sc = []
    for mx in MAXS:
        sc += split_cases(mx, rng, 60 if q else 10000)
    streams.append(("malformed-splits", DRIVER, sc))
    wf = []
    for _ in range(60 if q else 600):
        mx = rng.choice(MAXS)
        bs = wellformed_stream(rng, mx, rng.randint(1, 4))
        if len(bs) <= 80:
            for cut in range(1, len(bs)):
                wf.append(("case max=%d" % mx, chunked(bs, [cut])))
        for _ in range(3):
            k = rng.randint(0, 4)
            cuts = sorted(rng.sample(range(1, max(2, len(bs))), min(k, max(0, len(bs) - 1))))
            wf.append(("case max=%d" % mx, chunked(bs, cuts)))
    streams.append(("wellformed-splits", DRIVER, wf))
    rb = []
    for _ in range(300 if q else 5000):
        mx = rng.choice(MAXS)
        bs = [rng.choice([0, 1, 2, 0x7e, 0x7f, 0x80, 0x81, 0x82, 0xfe, 0xff, rng.randrange(256)]) for _ in range(rng.randint(1, 40))]
        k = rng.randint(0, 3)
        cuts = sorted(rng.sample(range(1, max(2, len(bs))), min(k, max(0, len(bs) - 1))))
        rb.append(("case max=%d" % mx, chunked(bs, cuts)))
    streams.append(("random-bytes", DRIVER, rb))
    rt = []
    for mx in MAXS:
        rt += roundtrips(rng, mx, not q)
    streams.append(("roundtrip", DRIVER, rt))
    return streams
