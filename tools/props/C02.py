"""C02 byte-stream fidelity and the ReadAll/WriteAll contract: every segmentation of short streams, random long ones,
both directions interleaved, TCP conn (file flavour) and AsyncAdapter over a scripted io.ReadWriter."""
import itertools
import random

DRIVER = "rw"
RULE = ("adapter flavour: the wrapped io.ReadWriter returns scripted (count, error) results - every composition of a stream of "
        "<= 6 bytes into <= 3 segments x every position of one disturbance (0-byte nil read, EOF, would-block, failure, with "
        "and without bytes in the same call) x Read/ReadAll x buffer sizes {1, total-1, total, total+2}; the same for "
        "Write/WriteAll; random long scripts (sizes to 70000, up to 12 segments) with reads and writes in flight together. "
        "file flavour (real TCP, sonic.Dial): the peer writes the scripted segments between polls (would-block in the middle "
        "of ReadAll), half-closes at every cut; ReadAll up to 200000 bytes in <= 30000-byte segments; WriteAll up to 6 MiB "
        "against a peer that drains slowly, and WriteAll of 70 KB..2.5 MB with a 16 KiB send buffer (many kernel-chosen partial writes, short writes on calls the poller resumed). Stream bytes come from a position-dependent "
        "generator; buffers carry sentinels behind the requested length. distinct = (unread count, eof, remaining scripts, "
        "in-flight progress) model states; non-trivial = an operation in flight has moved some but not all bytes")
EXHAUSTIVE = {"quick": False, "thorough": False}
CLAUSES = {"1": "bytes delivered to a read are not the next bytes the peer sent (lost, duplicated, reordered or invented)",
           "2": "count passed to the callback outside [0, len]",
           "3": "ReadAll/WriteAll reported success without transferring the whole buffer",
           "4": "bytes received by the transport are not the accepted prefixes of the completed writes, in order",
           "5": "callback for an operation that is not in flight (twice, or never started)",
           "6": "bytes behind the reported count were modified in the caller's buffer",
           "panic": "call panicked"}
ASSUMPTIONS = ["user contract: at most one read and one write in flight per object, non-empty buffers",
               "file flavour: loopback TCP delivers what the peer wrote within 2 ms; unread data stays below the socket buffer size"]


def attrs(o, case):
    return {"op": o["op"].split()[0], "flav": "adapter" if "adapter" in case[0] else "file"}


def compositions(total, maxparts):
    out = []
    for k in range(1, maxparts + 1):
        for cuts in itertools.combinations(range(1, total), k - 1):
            b = (0,) + cuts + (total,)
            out.append([b[i + 1] - b[i] for i in range(k)])
    return out


def adapter_read_cases(rng, q):
    cases = []
    totals = (1, 2, 3, 5) if q else (1, 2, 3, 4, 5, 6)
    for total in totals:
        for comp in compositions(total, 3):
            for dist in [None, (0, 0), (0, 1), (0, 3), (0, 9), (1, 1), (1, 9)]:
                positions = range(len(comp) + 1) if dist else [0]
                for pos in positions:
                    script = ["%d:0" % n for n in comp]
                    if dist:
                        script.insert(pos, "%d:%d" % dist)
                    for all_ in (0, 1):
                        for blen in sorted(set([1, max(1, total - 1), total, total + 2])):
                            if q and rng.random() < 0.6:
                                continue
                            ops = ["peerdata %d" % total, "rscript %s" % ",".join(script), "rstart %d %d 10" % (all_, blen)]
                            ops += ["poll"] * (len(script) + 2)
                            # whatever is still in flight completes now: the script is exhausted, enough bytes arrive
                            ops += ["peerdata %d" % (blen + 2), "poll", "poll"]
                            ops += ["rstart 0 %d 11" % (total + 1), "poll", "poll"]
                            cases.append(("case flav=adapter", ops))
    return cases


def adapter_write_cases(rng, q):
    cases = []
    totals = (1, 2, 3, 5) if q else (1, 2, 3, 4, 5, 6)
    for total in totals:
        for comp in compositions(total, 3):
            for dist in [None, (0, 0), (0, 3), (0, 9), (1, 9), (1, 1)]:
                positions = range(len(comp) + 1) if dist else [0]
                for pos in positions:
                    script = ["%d:0" % n for n in comp]
                    if dist:
                        script.insert(pos, "%d:%d" % dist)
                    for all_ in (0, 1):
                        if q and rng.random() < 0.5:
                            continue
                        ops = ["wscript %s" % ",".join(script), "wstart %d %d 20 %d" % (all_, total, rng.randrange(256))]
                        ops += ["poll"] * (len(script) + 2)
                        ops += ["wire", "wstart 1 3 21 %d" % rng.randrange(256), "poll", "poll", "wire"]
                        cases.append(("case flav=adapter", ops))
    return cases


def adapter_random(rng, q):
    cases = []
    for _ in range(40 if q else 600):
        ops = []
        r_in = w_in = False
        queued = 0
        for _ in range(rng.randint(4, 30)):
            x = rng.random()
            if x < 0.2:
                n = rng.choice([1, 2, 7, 100, 1000, 70000] if not q else [1, 2, 7, 100, 3000])
                ops.append("peerdata %d" % n)
            elif x < 0.3:
                k = rng.randint(1, 5)
                ops.append("rscript %s" % ",".join("%d:%d" % (rng.choice([0, 1, 2, 5, 50, 1000, 100000]), rng.choice([0, 0, 0, 0, 0, 3, 1, 9])) for _ in range(k)))
                queued += k
            elif x < 0.4:
                k = rng.randint(1, 5)
                ops.append("wscript %s" % ",".join("%d:%d" % (rng.choice([0, 1, 2, 5, 50, 1000, 100000]), rng.choice([0, 0, 0, 0, 0, 3, 9])) for _ in range(k)))
                queued += k
            elif x < 0.55 and not r_in:
                ops.append("rstart %d %d %d" % (rng.randint(0, 1), rng.choice([1, 2, 3, 8, 64, 1000, 5000]), 10))
                r_in = True
            elif x < 0.7 and not w_in:
                ops.append("wstart %d %d %d %d" % (rng.randint(0, 1), rng.choice([1, 2, 3, 8, 64, 1000, 5000]), 20, rng.randrange(256)))
                w_in = True
            else:
                ops.append("poll")
                # whether the operations completed is not known to the generator: it only starts a new one after enough
                # polls with an empty script to finish (nil results, all available bytes)
            if ops[-1] == "poll" and rng.random() < 0.3:
                # flush: make sure nothing is in flight before the next start
                ops += ["peerdata 6000", "rscript 100000:0", "poll", "poll", "wscript 100000:0", "poll", "poll"]
                ops += ["poll"] * (queued + 4)
                queued = 0
                r_in = w_in = False
        ops += ["wire"]
        cases.append(("case flav=adapter", ops))
    return cases


def file_cases(rng, q):
    cases = []
    # every composition of a short stream, peer segments between polls, would-block in the middle of ReadAll, EOF at the end
    totals = (1, 3, 5) if q else (1, 2, 3, 4, 5, 6)
    for total in totals:
        for comp in compositions(total, 3):
            for all_ in (0, 1):
                for blen in sorted(set([1, max(1, total - 1), total, total + 2])):
                    for early in (0, 1):
                        if q and rng.random() < 0.75:
                            continue
                        ops = []
                        if early:
                            ops.append("peerdata %d" % comp[0])
                        ops.append("rstart %d %d 10" % (all_, blen))
                        for j, n in enumerate(comp):
                            if j == 0 and early:
                                continue
                            ops += ["poll", "peerdata %d" % n, "poll"]
                        ops += ["peereof", "poll", "rstart 0 %d 11" % (total + 1), "poll", "rstart 1 4 12", "poll"]
                        cases.append(("case flav=file", ops))
    # segments separated by an urgent byte: one read attempt of a ReadAll sees several successful kernel reads in a row
    # (one urgent byte per connection: a second one turns the first into ordinary stream data, kernel behaviour)
    for segs in ((4, 4), (2, 8), (1, 1), (7, 3), (1, 300)):
        total = sum(segs)
        for early in (0, 1):
            ops = []
            if not early:
                ops += ["rstart 1 %d 10" % total, "poll"]
            for j, n in enumerate(segs):
                if j:
                    ops.append("peeroob")
                ops.append("peerdata %d" % n)
            if early:
                ops.append("rstart 1 %d 10" % total)
            ops += ["poll", "poll", "peerdata 3", "rstart 1 3 11", "poll", "peereof", "poll", "rstart 0 4 12", "poll"]
            cases.append(("case flav=file", ops))
    # long streams
    for _ in range(3 if q else 30):
        total = rng.choice([5000, 70000, 200000] if not q else [5000, 70000])
        ops = ["rstart 1 %d 10" % total]
        left = total + rng.choice([0, 0, 17])
        while left > 0:
            n = min(left, rng.choice([1, 100, 1460, 4096, 30000]))
            ops += ["peerdata %d" % n, "poll"]
            left -= n
        ops += ["poll", "rstart 0 64 11", "poll"]
        cases.append(("case flav=file", ops))
    # writes: small ones complete inline; large ones are split by the kernel
    for _ in range(4 if q else 40):
        ops = []
        for _ in range(rng.randint(1, 6)):
            ops.append("wstart %d %d 20 %d" % (rng.randint(0, 1), rng.choice([1, 2, 100, 1460, 65536]), rng.randrange(256)))
            if rng.random() < 0.4:
                ops += ["peerdata %d" % rng.choice([1, 9]), "rstart 0 16 10", "poll"]
        ops.append("wire")
        cases.append(("case flav=file", ops))
    for size in ([3000000] if q else [3000000, 6000000, 6291457]):
        cases.append(("case flav=file", ["wstart 1 %d 20 7" % size, "wire", "wstart 1 10 21 1", "wire"]))
    # tiny socket buffers: dozens of kernel segments per transfer, short writes on calls the poller resumed
    for size in ([70000, 300000] if q else [70000, 300000, 1000000, 2500000]):
        # WriteAll only: how many bytes a plain AsyncWrite moves into a full socket is the kernel's choice
        cases.append(("case flav=file", ["smallbuf", "wstart 1 %d 20 %d" % (size, rng.randrange(256)), "wire", "wstart 1 10 21 1", "wire"]))
    # both directions in flight together
    for _ in range(5 if q else 60):
        ops = ["rstart 1 10 10"]
        for _ in range(rng.randint(2, 8)):
            x = rng.random()
            if x < 0.4:
                ops.append("wstart %d %d 20 %d" % (rng.randint(0, 1), rng.choice([1, 5, 1000]), rng.randrange(256)))
            elif x < 0.8:
                ops += ["peerdata %d" % rng.choice([1, 2, 3]), "poll"]
            else:
                ops.append("poll")
        ops += ["peerdata 10", "poll", "wire"]
        cases.append(("case flav=file", ops))
    return cases


def generate(tier, seed):
    rng = random.Random(seed)
    q = tier == "quick"
    return [("adapter-reads", DRIVER, adapter_read_cases(rng, q)), ("adapter-writes", DRIVER, adapter_write_cases(rng, q)),
            ("adapter-random", DRIVER, adapter_random(rng, q)), ("file", DRIVER, file_cases(rng, q))]
