"""C13 descriptors: no leaks on constructor error paths, no foreign close, objects with operations in flight stay reachable."""
import random

DRIVER = "fds"
RULE = ("/proc/self/fd census after every operation: each constructor (Dial tcp/udp, Listen, NewPacketConn, NewUDPPeer, Open, "
        "NewTimer, NewIO, websocket Handshake) on its success path and under every failure that can be injected without "
        "privileges (refused port, address in use, non-local address, missing file, broadcast without permission, server that "
        "answers 400 / garbage / closes mid-response, a second failed handshake on the same stream); Close of every object kind "
        "once, twice and three times with other objects created in between, checking with fcntl(F_GETFD) that every other "
        "live object's descriptor is still valid; random histories of creations and closes over all kinds; GC probes: an "
        "object with a read (and a deferred write) in flight, all user references dropped, two GC cycles, then completion. "
        "distinct = (open descriptors, objects) model states; non-trivial = more than one descriptor open")
EXHAUSTIVE = {"quick": False, "thorough": False}
CLAUSES = {"1": "a constructor's error path leaked a descriptor (or a success path opened a different number than it owns)",
           "2": "a repeated Close closed a descriptor that belongs to another live object (or released something twice)",
           "3": "descriptors still open after every object was closed",
           "4": "an object with an operation in flight was collected / is not the one the IO's registry keeps alive, or its completion never ran",
           "panic": "call panicked"}
ASSUMPTIONS = ["failures that need descriptor-table exhaustion (RLIMIT_NOFILE) are not injected",
               "the Go runtime opens no descriptors of its own during a case (its netpoller exists before the baseline)"]

KINDS = [("dial", ["ok", "refused"]), ("adapter", ["ok"]), ("dialudp", ["ok", "bad"]), ("listen", ["ok", "inuse"]), ("packet", ["ok", "inuse"]),
         ("peer", ["ok", "badaddr"]), ("open", ["ok", "missing"]), ("timer", ["ok"]), ("io", ["ok"])]


def attrs(o, case):
    f = o["op"].split()
    return {"op": f[0], "how": f[2] if len(f) > 2 else "-"}


def cases_for(rng, q):
    cases = []
    # every constructor: failure, failure, success, close x3 with another object in between
    for kind, hows in KINDS:
        ops = []
        for h in hows[1:]:
            ops += ["%s 1 %s" % (kind, h), "%s 2 %s" % (kind, h), "census"]
        ops += ["%s 3 ok" % kind, "close 3", "timer 4 ok", "close 3", "dial 5 ok", "close 3", "close 4", "close 5", "close 5", "census"]
        cases.append(("case", ops))
    for how in ("refused", "badstatus", "closeearly", "garbage"):
        cases.append(("case", ["ws 1 %s once" % how, "census", "ws 2 %s again" % how, "census", "timer 3 ok", "close 1", "close 2", "close 3", "census"]))
    # a descriptor number reused by an object with a read in flight, then the old owner is closed again
    for kind in ("dial", "listen", "packet", "timer", "open"):
        cases.append(("case", ["%s 1 ok" % kind, "close 1", "dial 2 ok", "aread 2", "close 1", "close 1", "dial 3 ok", "aread 3", "close 2", "close 2", "close 1",
                               "close 3", "census"]))
    cases.append(("case", ["dial 1 ok", "dial 2 ok", "aread 1", "aread 2", "close 1", "dial 3 ok", "aread 3", "close 1", "close 2", "close 3", "census"]))
    # a registry entry left behind by an adapter whose net.Conn was closed by its owner (as websocket.Stream.CloseNextLayer does),
    # then the kernel hands the number to a new object that defers a read: the registry must keep the NEW object alive
    for kind in ("dial", "adapter"):
        cases.append(("case", ["adapter 1 ok", "aread 1", "close 1", "%s 2 ok" % kind, "aread 2", "timer 3 ok", "close 3", "aread 2", "close 2", "census"]))
        cases.append(("case", ["dial 9 ok", "adapter 1 ok", "aread 1", "aread 9", "close 1", "%s 2 ok" % kind, "aread 2", "close 9", "%s 4 ok" % kind, "aread 4",
                               "close 2", "close 4", "census"]))
    # a ReadAll that got a part of its bytes and waits again must still be the object the registry keeps alive
    cases.append(("case", ["dial 1 ok", "areadall 1", "feed 1 3", "poll", "feed 1 2", "poll", "timer 2 ok", "close 2", "poll", "feed 1 3", "poll", "close 1", "census"]))
    cases.append(("case", ["dial 1 ok", "dial 2 ok", "areadall 1", "areadall 2", "feed 2 5", "poll", "feed 1 1", "poll", "poll", "close 1", "feed 2 3", "poll", "close 2", "census"]))
    # a packet conn with a read waiting and a chain of writes that runs into the dispatch limit: the deferred write completes
    # in a later poll while the read is still in flight, and the conn must stay the registered owner of its descriptor
    for n in (40, 33, 70):
        cases.append(("case", ["packet 1 ok", "pread 1", "pwrites 1 %d" % n, "poll", "poll", "timer 2 ok", "close 2", "poll", "close 1", "census"]))
    cases.append(("case", ["packet 1 ok", "pwrites 1 40", "pread 1", "poll", "poll", "packet 2 ok", "pread 2", "pwrites 2 34", "poll", "close 1", "poll", "close 2", "census"]))
    # an accept loop (every completed accept re-arms): the listener must be the registered owner of its descriptor while it waits
    cases.append(("case", ["listen 1 ok", "aaccept 1", "poll", "connect 1", "poll", "poll", "connect 1", "connect 1", "poll", "poll", "timer 2 ok", "close 2",
                           "poll", "close 1", "census"]))
    # random histories
    for _ in range(20 if q else 400):
        ops = []
        live = []
        nid = 1
        for _ in range(rng.randint(4, 25)):
            if rng.random() < 0.55 or not live:
                kind, hows = rng.choice(KINDS)
                how = rng.choice(hows)
                ops.append("%s %d %s" % (kind, nid, how))
                if how == "ok":
                    live.append(nid)
                nid += 1
            elif rng.random() < 0.3 and live:
                ops.append("aread %d" % rng.choice(live))
            else:
                ops.append("close %d" % rng.choice(live + list(range(1, nid))))
        for i in range(1, nid):
            ops.append("close %d" % i)
        ops.append("census")
        cases.append(("case", ops))
    for m in ("read", "both"):
        cases.append(("case", ["gcprobe %s" % m, "gcprobe %s" % m]))
    return cases


def generate(tier, seed):
    rng = random.Random(seed)
    return [("descriptors", DRIVER, cases_for(rng, tier == "quick"))]
