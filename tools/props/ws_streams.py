import random
from props import ws_common as W

DRIVER = W.DRIVER
CLAUSES = W.CLAUSES
ASSUMPTIONS = W.ASSUMPTIONS
EXHAUSTIVE = {"quick": False, "thorough": False}
attrs = W.attrs


def all_streams(rng, q, focus):
    """every WebSocket check runs every stream (so that a defect is reported by the property that owns its clause);
    the focus stream of the property is run at full size, the others sampled"""
    def sample(cs, n):
        return cs if len(cs) <= n else rng.sample(cs, n)
    big = 100000
    small = 250 if q else 2500
    return [
        ("conforming", DRIVER, sample(W.conforming_sessions(rng, q), big if focus == "C06" else small)),
        ("violations", DRIVER, sample(W.violation_sessions(rng, q), big if focus == "C15" else small)),
        ("closing2", DRIVER, sample(W.closing_sequences(rng, q, 2, 400 if q else 100000), big if focus == "C08" else small)),
        ("closing3", DRIVER, sample(W.closing_sequences(rng, q, 3, 300 if q else 6000), big if focus == "C08" else small)),
        ("random", DRIVER, sample(W.random_sessions(rng, 150 if q else 3000), big if focus == "C08" else small)),
        ("writes", DRIVER, sample(W.write_sessions(rng, q), big if focus == "C16" else small)),
    ]
