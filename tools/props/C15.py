"""C15 WebSocket protocol violations are reported, never delivered as data."""
import random
from props.ws_streams import *  # noqa: F401,F403
from props import ws_streams as S

OWN = {"2", "3", "12", "panic"}
RULE = 'scripts: every single-violation mutation (12 kinds: RSV1/2/3, reserved data/control opcodes, masked, fragmented ping/close, control > 125) at every position of 3 conforming sessions, split at every offset (sampled in quick), for the 4 read APIs, followed by a write that must be refused; fragmentation-rule violations; frames/messages above the maximum; plus sampled conforming/closing/write streams'


def generate(tier, seed):
    rng = random.Random(seed)
    return S.all_streams(rng, tier == "quick", "C15")
