import random
from props import loop_common as L

DRIVER = L.DRIVER
CLAUSES = L.CLAUSES
ASSUMPTIONS = L.ASSUMPTIONS
EXHAUSTIVE = {"quick": False, "thorough": False}
attrs = L.attrs


def all_streams(rng, q, focus):
    return [
        ("batches", DRIVER, L.batch_cases()),
        ("chains", DRIVER, L.chain_cases(q)),
        ("timers", DRIVER, L.timer_cases(q)),
        ("timers-random", DRIVER, L.timer_random(rng, 12 if q else 300)),
        ("random", DRIVER, [L.random_case(rng, rng.randint(8, 40)) for _ in range(120 if q else 3000)]),
        ("random-reg", DRIVER, [L.random_case(rng, rng.randint(8, 30), with_reg=True) for _ in range(40 if q else 600)]),
    ]
