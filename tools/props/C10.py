"""C10 BipBuffer: script generators (reachable-state BFS over small sizes + random long histories)."""
import random

DRIVER = "bip"
RULE = ("scripts: corpus + for sizes 1..K every reachable cursor state (BFS with a generator-side simulation, shortest "
        "script first) x every operation of {claim,commit,consume} x arguments 0..size+1, head, reset, followed by a "
        "drain; + random long histories. distinct = model states (cursors + live claim) visited by the extracted model; "
        "non-trivial = states with a non-empty wrapped region, or a live claim while bytes are queued")
EXHAUSTIVE = {"quick": False, "thorough": False}
CLAUSES = {
    "1": "claim outside the array or longer than asked", "2": "claim overlaps a committed-but-unconsumed byte",
    "3": "empty buffer did not grant min(n,size)", "4": "committed chunk is not the first min(n,claimed) claimed bytes",
    "5": "committed chunk not at the position of the claim", "6": "Committed() != bytes committed - bytes consumed",
    "7": "Consume dropped more than n bytes or nothing", "8": "Head is not the oldest committed bytes",
    "9": "Head empty although bytes are queued (or non-empty although none)", "10": "write through claim truncated",
    "panic": "operation panicked",
}
ASSUMPTIONS = ["arguments are non-negative (the property's quantifier)",
               "the caller writes only through the slice returned by the latest Claim, before the next Commit/Reset"]


def attrs(o, case):
    return {"op": o["op"].split()[0]}


class Sim:
    """generator-side guidance only (never used as an oracle)"""
    def __init__(self, size, st=(0, 0, 0, 0, 0, 0)):
        self.size = size
        self.st = st

    def step(self, op, n=0):
        h, t, wh, wt, ch, ct = self.st
        size = self.size
        if op == "claim":
            if wt - wh > 0:
                c, free = wt, h - wt
            else:
                before, after = h, size - t
                if before <= after:
                    c, free = t, after
                else:
                    c, free = 0, before
            if free != 0:
                ch, ct = c, c + min(free, n)
        elif op == "commit":
            k = min(ct - ch, n)
            if k <= 0:
                ch = ct = 0
            else:
                if (t - h + wt - wh) == 0:
                    h, t = ch, ch + k
                elif ch == t:
                    t += k
                else:
                    wt += k
                ch = ct = 0
        elif op == "consume":
            if n >= t - h:
                h, t, wh, wt = wh, wt, 0, 0
            else:
                h += n
        elif op == "reset":
            h = t = wh = wt = ch = ct = 0
        self.st = (h, t, wh, wt, ch, ct)


def drain():
    return ["head", "consume 1000000", "head", "consume 1000000", "head", "claim 1000000"]


def with_fill(ops):
    out = []
    k = 1
    for o in ops:
        out.append(o)
        if o.startswith("claim"):
            out.append("fill %d" % k)
            k = (k * 7 + 13) % 250 + 1
    return out


def bfs_cases(size):
    alphabet = [("claim", n) for n in range(size + 2)] + [("commit", n) for n in range(size + 2)] + \
               [("consume", n) for n in range(size + 2)] + [("reset", 0)]
    start = (0, 0, 0, 0, 0, 0)
    path = {start: []}
    queue = [start]
    cases = []
    while queue:
        st = queue.pop(0)
        for op, n in alphabet:
            s = Sim(size, st)
            s.step(op, n)
            line = op if op == "reset" else "%s %d" % (op, n)
            script = path[st] + [line]
            cases.append(("case size=%d" % size, with_fill(script + ["head"]) + drain()))
            if s.st not in path:
                path[s.st] = script
                queue.append(s.st)
    return cases


def random_case(rng, size, length):
    ops = []
    for _ in range(length):
        r = rng.random()
        if r < 0.35:
            ops.append("claim %d" % rng.choice([0, 1, rng.randint(0, size), rng.randint(0, max(1, size // 4)), size, size + 1]))
        elif r < 0.65:
            ops.append("commit %d" % rng.choice([0, 1, rng.randint(0, size), rng.randint(0, max(1, size // 4)), size + 5]))
        elif r < 0.92:
            ops.append("consume %d" % rng.choice([0, 1, rng.randint(0, size), rng.randint(0, max(1, size // 4)), size + 5]))
        elif r < 0.99:
            ops.append("head")
        else:
            ops.append("reset")
    return ("case size=%d" % size, with_fill(ops) + drain())


CORPUS = [
    ("case size=10", ["claim 4", "fill 1", "commit 4", "claim 0", "consume 4", "commit 1", "claim 10", "head"]),
    ("case size=10", ["claim 6", "fill 1", "commit 6", "consume 4", "claim 3", "fill 9", "commit 3", "claim 9", "fill 20",
                      "commit 2", "head", "consume 2", "head", "consume 9", "head", "consume 9", "head"]),
    ("case size=0", ["claim 1", "commit 1", "head", "consume 1"]),
]


def generate(tier, seed):
    rng = random.Random(seed)
    streams = [("corpus", DRIVER, CORPUS)]
    maxsize = 5 if tier == "quick" else 8
    bfs = []
    for size in range(1, maxsize + 1):
        bfs.extend(bfs_cases(size))
    streams.append(("bfs", DRIVER, bfs))
    nrand = 300 if tier == "quick" else 4000
    rnd = []
    for i in range(nrand):
        size = rng.choice([1, 2, 3, 7, 8, 16, 33, 64, 255, 256, 1000, 4096] + ([65536] if tier == "thorough" and i % 50 == 0 else []))
        rnd.append(random_case(rng, size, rng.randint(5, 120)))
    streams.append(("random", DRIVER, rnd))
    return streams
