"""C17 websocket read and write in flight together on the real adapter."""
import random

DRIVER = "wsasync"
RULE = ("real client stream after a real handshake on a loopback socket; scripts place application calls (start read, start "
        "write of 0..60000 bytes) and peer events (ping with 0..20 bytes, text/binary message) relative to poll cycles: every "
        "ordering of {read, ping, write, poll} sequences of length <= 6 starting with a read, random longer scripts with up to 3 "
        "pings and 4 writes between polls; every script ends with enough polls to settle, then the peer's received frames are "
        "parsed and unmasked. distinct = (queued frames, write in flight, flushing, waiters, read state) model states; "
        "non-trivial = a read and a write in flight together")
EXHAUSTIVE = {"quick": False, "thorough": False}
CLAUSES = {"1": "a user callback ran twice, or for an operation that was not started",
           "2": "frames on the wire are not the queued frames in order (interleaved, repeated, partial or missing when settled)",
           "3": "a read completed with something else than the next message the peer sent",
           "4": "a write on a healthy transport completed with an error",
           "5": "a callback was dropped: the operation never completed although the transport is healthy and the loop was run",
           "6": "after AsyncClose a write was accepted, a second Close was queued, or a data frame followed our Close on the wire",
           "panic": "call panicked"}
ASSUMPTIONS = ["loopback TCP delivers what the peer wrote within 2 ms; the socket is always writable (partial writes only for the large frames)"]


def attrs(o, case):
    return {"op": o["op"].split()[0]}


def settle():
    return ["poll"] * 10 + ["frames"]


def close_cases():
    """AsyncClose with its flush still in the poller: writes and a second close issued in that window must be refused"""
    cases = []
    for pre in ([], ["peer 9 41"], ["write 100 3"]):
        for mid in (["write 101 2"], ["close 201"], ["write 101 2", "close 201", "write 102 1"], ["chain 101 102 2", "write 101 2"]):
            ops = ["read 1"] + pre + ["close 200"] + mid + ["poll"] * 8 + ["frames"]
            cases.append(("case settled", ops))
    return cases


def cases_for(rng, q):
    cases = []
    import itertools
    atoms = ["ping", "write", "poll", "msg"]
    for n in ((2, 3, 4) if q else (2, 3, 4, 5)):
        for combo in itertools.product(atoms, repeat=n):
            if q and rng.random() < 0.8:
                continue
            ops = ["read 1"]
            wid = 100
            rid = 1
            for x in combo:
                if x == "ping":
                    ops.append("peer 9 %s" % (bytes(rng.randrange(256) for _ in range(rng.choice([0, 1, 5]))).hex() or "-"))
                elif x == "write":
                    ops.append("write %d %d" % (wid, rng.choice([0, 1, 5, 125, 126, 300])))
                    wid += 1
                elif x == "msg":
                    ops.append("peer %d %s" % (rng.choice([1, 2]), bytes([65 + rng.randrange(26) for _ in range(rng.choice([1, 3]))]).hex()))
                else:
                    ops.append("poll")
            ops += ["poll"] * 6 + ["peer 1 5a", "poll", "poll"]
            ops += settle()
            cases.append(("case settled", ops))
    # write callbacks that write again, with two pings buffered in one segment: a flush completes, its read continuation starts
    # the next flush, and the waiting write's callback registers with that one
    for npings in (1, 2, 3):
        for first in ("write", "ping"):
            ops = ["chain 100 101 %d" % rng.choice([1, 5]), "chain 101 102 3", "read 1"]
            pings = ["peer 9 %s" % bytes([65 + k]).hex() for k in range(npings)]
            ops += (["write 100 4"] + pings) if first == "write" else (pings + ["poll", "write 100 4"] + pings)
            ops += ["poll"] * 8 + ["peer 1 5a", "poll", "poll"] + settle()
            cases.append(("case settled", ops))
    cases += close_cases()
    # a message that does not fit the caller's buffer arrives while application writes are queued or in flight: the read fails,
    # the stream sends its own Close (going away) once, behind what was queued before, and nothing is repeated on the wire
    for pre in ([], ["write 100 3"], ["write 100 3", "write 101 300"], ["peer 9 41", "write 100 5"], ["chain 100 101 2", "write 100 4"]):
        for post in ([], ["write 110 2"], ["close 200"]):
            ops = ["readb 1 4"] + pre + ["peer 2 4142434445464748"] + ["poll"] + post + ["poll"] * 8 + ["frames"]
            cases.append(("case settled", ops))
            ops = ["readb 1 4", "poll"] + pre + ["peer 2 4142434445464748"] + ["poll"] + post + ["poll"] * 8 + ["frames"]
            cases.append(("case settled", ops))
    for _ in range(20 if q else 400):
        ops = ["read 1"]
        rid, wid = 1, 100
        for _ in range(rng.randint(3, 14)):
            x = rng.random()
            if x < 0.3:
                ops.append("peer 9 %s" % (bytes(rng.randrange(256) for _ in range(rng.choice([0, 2, 20]))).hex() or "-"))
            elif x < 0.55:
                if rng.random() < 0.3:
                    ops.append("chain %d %d %d" % (wid, wid + 1, rng.choice([1, 9, 200])))
                    ops.append("write %d %d" % (wid, rng.choice([0, 1, 7, 125, 126, 4000, 60000])))
                    wid += 2
                else:
                    ops.append("write %d %d" % (wid, rng.choice([0, 1, 7, 125, 126, 4000, 60000])))
                    wid += 1
            else:
                ops.append("poll")
        ops += ["poll"] * 8 + ["peer 2 4242", "poll", "poll"] + settle()
        cases.append(("case settled", ops))
    return cases


def generate(tier, seed):
    rng = random.Random(seed)
    return [("interleavings", DRIVER, cases_for(rng, tier == "quick"))]
