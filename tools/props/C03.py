"""C03 event-loop accounting and RunPending termination."""
import random
from props.loop_streams import *  # noqa: F401,F403
from props import loop_streams as S

OWN = {"21", "22", "23", "24", "25", "31", "30", "panic"}
RULE = 'same scripts as C01 (start/complete/cancel/close/timer arm/disarm/post over several objects, registrations that fail on regular files at the dispatch limit, polls with nothing ready); the ledger of operations in flight is recomputed from the event stream after every script line and compared with Pending()'


def generate(tier, seed):
    rng = random.Random(seed)
    return S.all_streams(rng, tier == "quick", "C03")
