"""C12 UDP datagram boundaries and addressing, the multicast peer's settings and memberships."""
import random

DRIVER = "mcast"
RULE = ("a real multicast peer: (datagrams) 1-3 raw sender sockets, datagram sizes {1, 2, buffer-1, buffer, buffer+1, 1372, 9000}, "
        "bursts queued before the read, reads started before and after arrival, SetAsyncReadBuffer between start and arrival, "
        "writes of 1..1372 bytes to each sender checked at the receiving socket; (settings) getters against getsockopt after "
        "construction and after every SetLoop/SetTTL/SetAll; (membership) every sequence of <= 3 (quick) / <= 4 (thorough) calls "
        "from Join/Leave/JoinSource/LeaveSource/BlockSource/UnblockSource over 2 groups x 2 sources (the host's address and one "
        "that never sends), each followed by a datagram to both groups. distinct = (queue length, pending read, buffer, "
        "settings, memberships) model states; non-trivial = several datagrams queued or several memberships")
EXHAUSTIVE = {"quick": False, "thorough": False}
CLAUSES = {"1": "a read did not deliver exactly the oldest datagram (bytes truncated to the buffer, length, sender)",
           "2": "the pending read did not use the buffer designated last", "3": "a write did not emit exactly one datagram with the caller's bytes from the peer's address",
           "4loop": "Loop() differs from IP_MULTICAST_LOOP", "4ttl": "TTL() differs from IP_MULTICAST_TTL", "4all": "All() differs from IP_MULTICAST_ALL",
           "panic": "call panicked"}
ASSUMPTIONS = ["loopback UDP keeps datagram order and loses nothing at these rates", "membership semantics are the kernel's (environment model validated by this run)",
               "the host has one multicast-capable interface whose address is the source of outgoing group traffic"]


def attrs(o, case):
    return {"op": o["op"].split()[0]}


def dgram_cases(rng, q):
    cases = []
    for buf in (1, 8, 100, 1372):
        for size in sorted(set([1, 2, max(1, buf - 1), buf, buf + 1, 1372] + ([] if q else [9000]))):
            for early in (0, 1):
                ops = []
                if early:
                    ops += ["arrive 1 %d %d" % (size, rng.randrange(256)), "aread %d 10" % buf]
                else:
                    ops += ["aread %d 10" % buf, "poll", "arrive 1 %d %d" % (size, rng.randrange(256)), "poll"]
                ops += ["arrive 2 3 7", "aread 16 11", "poll", "write 1 %d %d" % (min(size, 1372), rng.randrange(256))]
                cases.append(("case mode=uni", ops))
    # the same datagram contract on the packet conn (packet.go): buffers with spare capacity, datagrams shorter / equal / longer
    for buf in (1, 8, 100):
        for size in sorted(set([1, max(1, buf - 1), buf, buf + 1, buf + 40, 1372])):
            for early in (0, 1):
                ops = []
                if early:
                    ops += ["arrive 1 %d %d" % (size, rng.randrange(256)), "aread %d 10" % buf]
                else:
                    ops += ["aread %d 10" % buf, "poll", "arrive 1 %d %d" % (size, rng.randrange(256)), "poll"]
                ops += ["arrive 2 3 7", "aread 16 11", "poll", "write 1 %d %d" % (min(size, 1372), rng.randrange(256)), "write 2 5 9"]
                cases.append(("case mode=pkt", ops))
    # bursts consumed by chained reads with a fresh buffer per read, across the dispatch limit
    for n in ((5, 40, 70) if q else (5, 31, 32, 33, 34, 40, 70, 130)):
        ops = ["arrive %d %d %d" % (1 + k % 3, 8 + k % 5, rng.randrange(256)) for k in range(n)] + ["chain %d 16" % n]
        cases.append(("case mode=uni", ops))
    for _ in range(20 if q else 300):
        ops = []
        pending = False
        nq = 0
        cb = 10
        for _ in range(rng.randint(4, 20)):
            x = rng.random()
            if x < 0.35:
                ops.append("arrive %d %d %d" % (rng.randint(1, 3), rng.choice([1, 2, 7, 64, 500, 1372]), rng.randrange(256)))
                nq += 1
            elif x < 0.6 and not pending:
                ops.append("aread %d %d" % (rng.choice([1, 4, 64, 1372, 2000]), cb))
                cb += 1
                if nq > 0:
                    nq -= 1
                else:
                    pending = True
            elif x < 0.7 and pending:
                ops.append("setbuf %d" % rng.choice([1, 4, 64, 1372]))
            elif x < 0.85:
                ops.append("poll")
                if pending and nq > 0:
                    pending = False
                    nq -= 1
            else:
                ops.append("write %d %d %d" % (rng.randint(1, 3), rng.choice([1, 2, 100, 1372]), rng.randrange(256)))
        cases.append(("case mode=uni", ops))
    return cases


def settings_cases(rng, q):
    cases = [("case mode=uni", ["settings"])]
    for _ in range(5 if q else 60):
        ops = ["settings"]
        for _ in range(rng.randint(1, 6)):
            ops.append(rng.choice(["setloop 0", "setloop 1", "setttl 0", "setttl 1", "setttl 7", "setttl 255", "setall 0", "setall 1"]))
        cases.append(("case mode=uni", ops))
    return cases


def member_cases(rng, q):
    import itertools
    calls = ["join 1", "leave 1", "joinsrc 1 1", "joinsrc 1 2", "leavesrc 1 1", "leavesrc 1 2", "block 1 1", "block 1 2", "unblock 1 1", "unblock 1 2", "join 2", "leave 2"]
    cases = []
    for n in ((1, 2, 3) if q else (1, 2, 3, 4)):
        for combo in itertools.product(calls, repeat=n):
            if n >= 3 and rng.random() < (0.93 if q else 0.8):
                continue
            ops = []
            for cl in combo:
                ops += [cl, "msend 1", "msend 2"]
            cases.append(("case mode=group", ops))
    return cases


def generate(tier, seed):
    rng = random.Random(seed)
    q = tier == "quick"
    return [("datagrams", DRIVER, dgram_cases(rng, q)), ("settings", DRIVER, settings_cases(rng, q)), ("membership", DRIVER, member_cases(rng, q))]
