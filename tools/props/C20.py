"""C20 slot sequencer: generators (all interleavings of <=5 pushes/pops in every order, capacity edges, never-empty
sequencers, duplicates, zero-length packets) + Fenwick tree sweeps."""
import itertools
import random

DRIVER = "slots"
RULE = ("scripts: (a) for k<=5 packets every order of pushes interleaved with pops in every order (pop only parked numbers, "
        "plus one absent), sizes incl. 0; (b) capacity: maxslots/maxbytes reached and exceeded, offset-index exhaustion in "
        "sequencers that never drain; (c) duplicates; (d) random long histories; (e) Fenwick tree: every (index, query) "
        "pair for sizes 1..17 and random add/sum histories. distinct = (slots, tree, bytes) model states; non-trivial = "
        ">=2 parked slots while earlier discards are recorded in the offset tree")
EXHAUSTIVE = {"quick": False, "thorough": False}
CLAUSES = {"1": "duplicate accepted or push result inconsistent", "2": "push within capacity refused",
           "3": "push beyond capacity accepted", "4": "popped bytes are not the bytes saved under that number (or pop missing/spurious)",
           "5": "Size() != parked packets", "6": "Bytes() != parked bytes", "7": "save area != concatenation of parked packets (a discard removed other bytes)",
           "8": "Fenwick prefix sum wrong", "panic": "call panicked"}
ASSUMPTIONS = ["a packet is pushed right after it is saved and a popped slot is discarded right after Pop (the documented protocol)",
               "a failed push is followed by discarding the just-saved slot"]


def attrs(o, case):
    return {"op": o["op"].split()[0]}


def payload(seq, n):
    return "".join("%02x" % ((seq * 16 + i) % 256) for i in range(n)) if n else "-"


def interleavings(k, sizes, rng, limit):
    cases = []
    seqs = list(range(1, k + 1))
    for push_order in itertools.permutations(seqs):
        for pop_order in itertools.permutations(seqs):
            # merge: a random valid merge (pop only after push) + the two extreme merges
            for mode in ("early", "late", "rand"):
                ops = []
                pushed = []
                pi = 0
                po = list(pop_order)
                pu = list(push_order)
                while pu or po:
                    can_pop = po and po[0] in pushed
                    if mode == "early":
                        do_pop = can_pop
                    elif mode == "late":
                        do_pop = can_pop and not pu
                    else:
                        do_pop = can_pop and (not pu or rng.random() < 0.5)
                    if do_pop:
                        ops.append("pop %d" % po.pop(0))
                    elif pu:
                        s = pu.pop(0)
                        pushed.append(s)
                        ops.append("park %d %s" % (s, payload(s, sizes[s % len(sizes)])))
                    else:
                        # head of pop order not yet pushed and nothing left to push cannot happen
                        ops.append("pop %d" % po.pop(0))
                ops.append("pop 99")
                ops.append("observe")
                cases.append(("case maxslots=8 maxbytes=64", ops))
    rng.shuffle(cases)
    return cases[:limit]


def capacity_cases():
    cs = []
    # slot capacity
    cs.append(("case maxslots=2 maxbytes=64", ["park 1 %s" % payload(1, 2), "park 2 %s" % payload(2, 2), "park 3 %s" % payload(3, 2),
                                               "pop 1", "park 3 %s" % payload(3, 2), "pop 3", "pop 2", "observe"]))
    # byte capacity: exact fit, fit+1
    cs.append(("case maxslots=8 maxbytes=8", ["park 1 %s" % payload(1, 4), "park 2 %s" % payload(2, 4), "park 3 %s" % payload(3, 1),
                                              "pop 2", "park 3 %s" % payload(3, 4), "park 4 %s" % payload(4, 1), "pop 1", "pop 3", "observe"]))
    cs.append(("case maxslots=8 maxbytes=8", ["park 1 %s" % payload(1, 9), "park 1 %s" % payload(1, 8), "pop 1", "observe"]))
    # never-draining sequencer: the offset index runs out
    ops = ["park 1 %s" % payload(1, 2)]
    for i in range(2, 30):
        ops.append("park %d %s" % (i, payload(i, 3)))
        ops.append("pop %d" % i)
    ops += ["pop 1", "park 50 %s" % payload(50, 3), "pop 50", "observe"]
    cs.append(("case maxslots=4 maxbytes=32", ops))
    # duplicates, zero-length packets
    cs.append(("case maxslots=4 maxbytes=32", ["park 5 %s" % payload(5, 3), "park 5 %s" % payload(6, 2), "park 4 -", "park 4 %s" % payload(4, 1),
                                               "pop 4", "pop 5", "pop 5", "park 5 %s" % payload(7, 2), "pop 5", "observe"]))
    cs.append(("case maxslots=4 maxbytes=0", ["park 1 -", "park 2 %s" % payload(2, 1), "pop 1", "observe"]))
    cs.append(("case maxslots=0 maxbytes=16", ["park 1 %s" % payload(1, 1), "pop 1", "observe"]))
    return cs


def random_case(rng, length):
    maxslots = rng.choice([1, 2, 3, 5, 8, 16])
    maxbytes = rng.choice([4, 8, 16, 33, 64, 200])
    parked = []
    ops = []
    nextseq = 1
    for _ in range(length):
        r = rng.random()
        if r < 0.5 or not parked:
            if rng.random() < 0.1 and parked:
                s = rng.choice(parked)
            else:
                s = rng.randint(1, 40) if rng.random() < 0.5 else nextseq
                nextseq += 1
            ops.append("park %d %s" % (s, payload(s + rng.randint(0, 5), rng.choice([0, 1, 2, 3, 5, 8]))))
            if s not in parked:
                parked.append(s)  # may have failed; pops of absent numbers are fine
        elif r < 0.95:
            s = rng.choice(parked)
            parked.remove(s)
            ops.append("pop %d" % s)
        elif r < 0.98:
            ops.append("pop %d" % rng.randint(1, 60))
        else:
            ops.append("reset")
            parked = []
    ops.append("observe")
    return ("case maxslots=%d maxbytes=%d" % (maxslots, maxbytes), ops)


def fenwick_cases(rng, maxn, nrand):
    cases = []
    for n in range(0, maxn + 1):
        ops = []
        for i in range(n):
            ops.append("add %d %d" % (i, i + 1))
            for q in range(-1, n):
                ops.append("sum %d" % q)
            ops.append("total")
        cases.append(("case n=%d" % n, ops))
        for i in range(n):
            cases.append(("case n=%d" % n, ["add %d 1" % i] + ["sum %d" % q for q in range(n)] + ["reset", "total"]))
    for _ in range(nrand):
        n = rng.choice([1, 2, 3, 7, 8, 9, 31, 32, 33, 100, 255, 256, 1000])
        ops = []
        for _ in range(rng.randint(5, 60)):
            if rng.random() < 0.5:
                ops.append("add %d %d" % (rng.randrange(n), rng.randint(-5, 9)))
            elif rng.random() < 0.9:
                ops.append("sum %d" % rng.randrange(-1, n))
            else:
                ops.append("total")
        cases.append(("case n=%d" % n, ops))
    return cases


def generate(tier, seed):
    rng = random.Random(seed)
    q = tier == "quick"
    streams = [("capacity", DRIVER, capacity_cases())]
    inter = []
    for k in (1, 2, 3):
        inter += interleavings(k, [2, 0, 3, 1], rng, 100000)
    inter += interleavings(4, [2, 3, 1, 4, 0], rng, 800 if q else 6000)
    if not q:
        inter += interleavings(5, [2, 3, 1, 4, 0, 5], rng, 8000)
    streams.append(("interleavings", DRIVER, inter))
    streams.append(("random", DRIVER, [random_case(rng, rng.randint(10, 120)) for _ in range(300 if q else 4000)]))
    streams.append(("fenwick", "fenwick", fenwick_cases(rng, 17 if q else 40, 100 if q else 1000)))
    return streams
