"""C16 every frame the WebSocket client writes is well-formed and correctly masked."""
import random
from props.ws_streams import *  # noqa: F401,F403
from props import ws_streams as S

OWN = {"4", "5", "7", "panic"}
RULE = 'scripts: messages of sizes {0,1,2,125,126,127,300,65535,65536,max,max+1} text/binary, blocking and asynchronous, in shuffled order so that pooled frames are reused after longer and shorter ones, transports accepting 1/7/all bytes per call; caller-built frames with and without SetPayload after frames of other lengths; automatic Pong/Close interleaved with writes; transport failure at every offset; plus sampled conforming/violation/closing streams. Every frame on the wire is re-parsed by the extracted pure parser, unmasked with its own key and compared with what is owed'


def generate(tier, seed):
    rng = random.Random(seed)
    return S.all_streams(rng, tier == "quick", "C16")
