"""C04 timer guarantees."""
import random
from props.loop_streams import *  # noqa: F401,F403
from props import loop_streams as S

OWN = {"1", "10", "11", "12", "13", "16", "17", "18", "panic"}
RULE = "timer scripts: two timers expiring in one batch with cancel/close/re-arm from the other's callback, timer vs I/O object in one batch, single-schedule rule, revive after close, non-positive delays, not-before-delay, repeating timers cancelled from inside/outside/closed; 20-60 ms delays with >= 10 ms margins; plus the I/O streams"


def generate(tier, seed):
    rng = random.Random(seed)
    return S.all_streams(rng, tier == "quick", "C04")
