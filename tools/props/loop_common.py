"""Shared script generators and clause tables for the event-loop properties (C01 C03 C04 C14)."""
import random

DRIVER = "loop"
CLAUSES = {
    "1": "a completion callback ran with no operation in flight (completed twice, or after Close)",
    "2": "ReadAll/WriteAll reported success with a partial count",
    "4": "Cancel did not complete every in-flight operation exactly once with the cancellation error",
    "5": "an in-flight operation whose descriptor the poll batch reported ready (IN/OUT/HUP/ERR) was not dispatched: it never completes",
    "10": "a timer callback ran before its delay had elapsed",
    "11": "scheduling an already scheduled timer did not fail (or disturbed the existing schedule)",
    "12": "a closed timer was revived",
    "13": "a legal schedule was refused",
    "14": "completion callbacks nested deeper than MaxCallbackDispatch + 1",
    "15": "the dispatch depth accounting did not return to its base value",
    "16": "an expired timer present in the poll batch did not fire",
    "18": "an armed timer is more than 30 ms overdue after a poll and has not fired (its callback is lost)",
    "17": "scheduling from inside the callback of a live repeating timer did not fail (and ends the repetition without Cancel or Close)",
    "21": "Pending() differs from the number of operations in flight (deferred ops + armed timers + queued posts)",
    "22": "PollOne dispatched handlers but reported a non-positive count",
    "23": "PollOne reported 0 without the timeout error",
    "24": "an untimed wait that signals interrupted reported an error, or returned while an operation was still in flight",
    "25": "PollOne reported a timeout while a posted handler was queued: its wake-up was lost and the handler stays counted forever",
    "30": "posted handlers ran out of order",
    "31": "a queued post was not run by the poll that drained the wake-up descriptor",
    "panic": "call panicked",
}
ASSUMPTIONS = ["kernel model of TCP sockets, FIFOs, regular files, timerfd and eventfd readiness (validated by the correspondence run; the epoll batch itself is taken from the implementation)",
               "handlers are finite action tables; at most one read and one write in flight per object (the library's documented contract)",
               "writes never fill the kernel buffers in these scripts; logical time advances only through the script's sleeps (margins >= 10 ms)"]
KINDS = ["sock", "piper", "pipew", "reg"]


def attrs(o, case):
    """the kind of the object the failing operation refers to decides which finding a failure belongs to"""
    kinds = {}
    for l in case[1]:
        f = l.split()
        if f[0] == "obj":
            kinds[f[1]] = f[2]
    f = o["op"].split()
    target = "-"
    if f[0] == "start" and len(f) > 2:
        target = kinds.get(f[2], "-")
    elif f[0] in ("cancel", "close", "peer") and len(f) > 1:
        target = kinds.get(f[1], "-")
    # a handler program that re-issues an operation on a regular file: the unbounded nesting of the known finding can then
    # surface at whichever operation runs that handler
    reg_reissue = False
    for l in case[1]:
        g = l.split()
        if g[0] == "prog":
            for act in " ".join(g[2:]).split(";"):
                h = act.split()
                if len(h) > 2 and h[0] == "start" and kinds.get(h[2]) == "reg":
                    reg_reissue = True
    return {"op": f[0], "target_kind": target, "reg_reissue": reg_reissue}


def rd(i):
    return 10 + i


def wr(i):
    return 20 + i


def setup(objs, timers=0):
    ops = []
    for i, k in enumerate(objs):
        ops.append("obj %d %s" % (i, k))
    for t in range(timers):
        ops.append("timer %d" % t)
    return ops


def chain_cases(q):
    """C14: chains of immediately completable operations re-issued from their own callbacks"""
    cases = []
    for kind, n in (("sock", 200), ("piper", 120), ("sock", 33), ("sock", 32), ("piper", 64)):
        ops = setup([kind]) + ["prog %d start read 0 1 %d" % (rd(0), rd(0)), "peer 0 data %d" % n, "start read 0 1 %d" % rd(0),
                               "pollone", "pollone", "pollone", "pollone", "pollone", "pollone", "pollone", "pollone", "cancel 0", "pollone"]
        cases.append(("case", ops))
    # writes with buffer space
    for kind in ("sock", "pipew"):
        ops = setup([kind]) + ["prog %d start write 0 1 %d" % (wr(0), wr(0)), "start write 0 1 %d" % wr(0), "pollone", "pollone"]
        # the chain never ends by itself: bound it by closing from the poller-dispatched callback count
        ops = setup([kind]) + ["prog %d start write 0 1 %d" % (wr(0), 50), "prog 50 start write 0 1 51", "prog 51 start write 0 1 %d" % wr(0),
                               "depth 30", "start write 0 1 %d" % wr(0), "depth 0", "pollone", "close 0", "pollone"]
        cases.append(("case", ops))
    # mixed round-robin over several objects
    ops = setup(["sock", "piper", "sock"]) + [
        "prog %d start read 1 1 %d" % (rd(0), rd(1)), "prog %d start read 2 1 %d" % (rd(1), rd(2)), "prog %d start read 0 1 %d" % (rd(2), rd(0)),
        "peer 0 data 40", "peer 1 data 40", "peer 2 data 40", "start read 0 1 %d" % rd(0)] + ["pollone"] * 6 + ["cancel 0", "cancel 1", "cancel 2"]
    cases.append(("case", ops))
    # listener: chains of accepts with connections queued (its own copy of the dispatch logic), from top level and from a
    # poller-dispatched completion, and mixed with reads on a socket
    for n in (40, 33, 70):
        ops = setup(["lsn"]) + ["prog %d start read 0 1 %d" % (rd(0), rd(0)), "peer 0 data %d" % n, "start read 0 1 %d" % rd(0)] + ["pollone"] * 4 + ["close 0"]
        cases.append(("case", ops))
        ops = setup(["lsn"]) + ["prog %d start read 0 1 %d" % (rd(0), rd(0)), "start read 0 1 %d" % rd(0), "peer 0 data %d" % n] + ["pollone"] * 4 + ["close 0"]
        cases.append(("case", ops))
    ops = setup(["lsn", "sock"]) + ["prog %d start read 1 1 %d" % (rd(0), rd(1)), "prog %d start read 0 1 %d" % (rd(1), rd(0)),
                                    "peer 0 data 40", "peer 1 data 40", "start read 1 1 %d" % rd(1)] + ["pollone"] * 4 + ["close 0", "cancel 1"]
    cases.append(("case", ops))
    for d0 in (31, 32, 33):
        cases.append(("case", setup(["lsn"]) + ["peer 0 data 2", "depth %d" % d0, "start read 0 1 %d" % rd(0), "depth 0", "pollone", "pollone", "close 0"]))
    # packet conn (its own copy of the logic; a deferred completion runs through the callback the operation was scheduled with:
    # the counting wrapper after a would-block, the bare callback after a deferral at the limit): datagrams of 4 bytes, reads of 4
    for n in (40, 33, 70, 200):
        ops = setup(["pkt"]) + ["prog %d start read 0 4 %d" % (rd(0), rd(0)), "peer 0 data %d" % (4 * n), "start read 0 4 %d" % rd(0)] + ["pollone"] * 8 + ["close 0"]
        cases.append(("case", ops))
        ops = setup(["pkt"]) + ["prog %d start read 0 4 %d" % (rd(0), rd(0)), "start read 0 4 %d" % rd(0), "peer 0 data %d" % (4 * n)] + ["pollone"] * 8 + ["close 0"]
        cases.append(("case", ops))
    for d0 in (0, 5, 31, 32, 33):
        ops = setup(["pkt"]) + ["prog %d start write 0 4 %d" % (wr(0), wr(0)), "depth %d" % d0, "start write 0 4 %d" % wr(0), "depth 0"] + ["pollone"] * 3 + ["close 0", "pollone"]
        cases.append(("case", ops))
        ops = setup(["pkt"]) + ["prog %d start read 0 4 %d" % (rd(0), rd(0)), "peer 0 data 160", "depth %d" % d0, "start read 0 4 %d" % rd(0), "depth 0"] + ["pollone"] * 3 + ["close 0", "pollone"]
        cases.append(("case", ops))
    # a packet read re-issued from inside a completion callback (depth 1, 2, 3) finds the socket empty, is parked, and completes in
    # a later poll: the accounting must be back at its base value afterwards
    for k in (1, 2, 3):
        ops = setup(["pkt"]) + ["prog %d start read 0 4 %d" % (rd(0), rd(0)), "peer 0 data %d" % (4 * k), "start read 0 4 %d" % rd(0),
                                "peer 0 data 4", "pollone", "peer 0 data 8", "pollone", "pollone", "close 0"]
        cases.append(("case", ops))
    ops = setup(["pkt", "sock"]) + ["prog %d start read 0 4 %d" % (rd(1), rd(0)), "prog %d start read 1 1 %d" % (rd(0), rd(1)), "peer 1 data 3",
                                    "start read 1 1 %d" % rd(1), "peer 0 data 4", "pollone", "pollone", "peer 0 data 4", "pollone", "close 0", "cancel 1"]
    cases.append(("case", ops))
    ops = setup(["pkt", "sock", "lsn"]) + ["prog %d start write 0 4 %d" % (rd(1), wr(0)), "prog %d start read 2 1 %d" % (wr(0), rd(2)), "prog %d start read 1 1 %d" % (rd(2), rd(1)),
                                           "peer 1 data 60", "peer 2 data 60", "start read 1 1 %d" % rd(1)] + ["pollone"] * 6 + ["close 0", "close 2", "cancel 1"]
    cases.append(("case", ops))
    # regular file at the dispatch limit (deferral needs epoll, which refuses regular files)
    ops = setup(["reg"]) + ["prog %d start read 0 1 %d" % (rd(0), rd(0)), "start read 0 1 %d" % rd(0), "pollone"]
    cases.append(("case", ops))
    ops = setup(["reg"]) + ["depth 32", "start read 0 4 %d" % rd(0), "depth 0", "pollone"]
    cases.append(("case", ops))
    return cases


def timer_cases(q):
    """C04: timers cancelled / closed / re-scheduled from callbacks of other timers ready in the same batch"""
    cases = []
    T = ["timer 0", "timer 1"]
    # two timers expire together; the first handler cancels the second and re-arms it for soon: it has to fire then
    cases.append(("case", T + ["prog 30 tcancel 1 ; sched 1 once 30 31", "sched 0 once 20 30", "sched 1 once 20 31", "sleep 40", "pollone", "sleep 70", "pollone", "pollone", "tcancel 1"]))
    cases.append(("case", T + ["prog 30 tcancel 1 ; sched 1 rep 30 31", "sched 0 once 20 30", "sched 1 once 20 31", "sleep 40", "pollone", "sleep 70", "pollone", "sleep 70", "pollone", "tcancel 1"]))
    # two timers expire together; the first handler cancels the second and re-arms it far in the future
    cases.append(("case", T + ["prog 30 tcancel 1 ; sched 1 once 400 31", "sched 0 once 20 30", "sched 1 once 20 31", "sleep 40", "pollone", "pollone", "tcancel 1"]))
    cases.append(("case", T + ["prog 31 tcancel 0 ; sched 0 once 400 30", "sched 0 once 20 30", "sched 1 once 20 31", "sleep 40", "pollone", "pollone", "tcancel 0"]))
    cases.append(("case", T + ["prog 30 tclose 1", "sched 0 once 20 30", "sched 1 once 20 31", "sleep 40", "pollone", "pollone"]))
    cases.append(("case", T + ["prog 30 tcancel 1", "sched 0 once 20 30", "sched 1 once 20 31", "sleep 40", "pollone", "pollone"]))
    # delays with a sub-millisecond part (below one millisecond, and just above whole milliseconds): the timer has to fire once the
    # delay has passed, once, and a repeating one keeps firing
    for us in (700, 1, 999, 1900, 2500, 30500):
        cases.append(("case", T + ["schedus 0 once %d 30" % us, "sleep 45", "pollone", "pollone", "schedus 0 once %d 31" % us, "sleep 45", "pollone", "tcancel 0"]))
    cases.append(("case", T + ["schedus 0 rep 20500 30", "sleep 30", "pollone", "sleep 30", "pollone", "sleep 30", "pollone", "tcancel 0", "sleep 30", "pollone"]))
    cases.append(("case", T + ["prog 30 schedus 1 once 700 31", "schedus 0 once 1500 30", "sleep 40", "pollone", "sleep 40", "pollone", "pollone", "tcancel 1"]))
    # single-schedule rule, revive after close, cancel after close
    cases.append(("case", T + ["sched 0 once 200 30", "sched 0 once 20 32", "sleep 40", "pollone", "tcancel 0", "sched 0 once 20 32", "sleep 40", "pollone"]))
    cases.append(("case", T + ["sched 0 once 20 30", "tclose 0", "sched 0 once 20 30", "tcancel 0", "sched 0 once 20 30", "sleep 40", "pollone"]))
    cases.append(("case", T + ["tclose 0", "tcancel 0", "sched 0 rep 20 30", "sleep 40", "pollone"]))
    # a closed timer is not revived by a zero or negative delay either (no immediate callback)
    cases.append(("case", T + ["tclose 0", "sched 0 once 0 30", "sched 0 once -5 30", "pollone", "sched 1 once 0 31"]))
    cases.append(("case", T + ["sched 0 once 20 30", "tclose 0", "sched 0 once 0 32", "sleep 40", "pollone", "sched 0 rep 0 32"]))
    # immediate callback for non-positive delays
    cases.append(("case", T + ["sched 0 once 0 30", "sched 0 once -5 30", "sched 0 rep 0 30", "pollone"]))
    # not before the delay
    cases.append(("case", T + ["sched 0 once 60 30", "sleep 20", "pollone", "sleep 20", "pollone", "sleep 40", "pollone", "pollone"]))
    # repeating; cancel from its own callback; cancel from top level; close
    cases.append(("case", T + ["sched 0 rep 30 30", "sleep 45", "pollone", "sleep 45", "pollone", "tcancel 0", "sleep 45", "pollone"]))
    cases.append(("case", T + ["prog 30 tcancel 0", "sched 0 rep 30 30", "sleep 45", "pollone", "sleep 45", "pollone", "sched 0 once 20 32", "sleep 40", "pollone"]))
    cases.append(("case", T + ["sched 0 rep 30 30", "sleep 45", "pollone", "tclose 0", "sleep 45", "pollone"]))
    # a repeating timer's own callback re-arms the timer and then cancels it (and the other orders)
    cases.append(("case", T + ["prog 30 sched 0 once 400 31 ; tcancel 0", "sched 0 rep 30 30", "sleep 45", "pollone", "sleep 45", "pollone", "sleep 45", "pollone", "tcancel 0"]))
    cases.append(("case", T + ["prog 30 sched 0 rep 400 31 ; tcancel 0", "sched 0 rep 30 30", "sleep 45", "pollone", "sleep 45", "pollone", "tcancel 0"]))
    cases.append(("case", T + ["prog 30 tcancel 0 ; sched 0 once 30 32", "sched 0 rep 30 30", "sleep 45", "pollone", "sleep 45", "pollone", "sleep 45", "pollone", "tcancel 0"]))
    cases.append(("case", T + ["prog 30 sched 0 once 30 32", "sched 0 rep 30 30", "sleep 45", "pollone", "sleep 45", "pollone", "sleep 45", "pollone", "tcancel 0"]))
    cases.append(("case", T + ["prog 30 sched 0 once 400 31 ; tcancel 0 ; sched 0 once 30 32", "sched 0 once 30 30", "sleep 45", "pollone", "sleep 45", "pollone", "tcancel 0"]))
    cases.append(("case", T + ["prog 30 tclose 0", "sched 0 rep 30 30", "sleep 45", "pollone", "sleep 45", "pollone", "sched 0 once 20 31"]))
    # timer and I/O object ready in the same batch, each handler touching the other
    cases.append(("case", ["obj 0 sock"] + T + ["prog %d tcancel 0 ; sched 0 once 400 30" % rd(0), "start read 0 4 %d" % rd(0), "sched 0 once 20 30",
                                                "peer 0 data 4", "sleep 40", "pollone", "pollone", "tcancel 0"]))
    cases.append(("case", ["obj 0 sock"] + T + ["prog 30 cancel 0", "start read 0 4 %d" % rd(0), "sched 0 once 20 30", "sleep 40", "peer 0 data 4", "pollone", "pollone"]))
    return cases


TIMER_ACTS = ["tcancel 0", "tcancel 1", "tclose 1", "sched 0 once 30 32", "sched 1 once 30 33", "sched 0 once 400 32", "sched 1 rep 30 33",
              "sched 0 rep 400 32", "post 40"]


def timer_random(rng, n):
    """random handler programs over two timers (own and the other timer), once and repeating, with real sleeps"""
    cases = []
    for _ in range(n):
        ops = ["timer 0", "timer 1"]
        for cb in (30, 31):
            k = rng.choice([0, 1, 1, 2, 3])
            if k:
                ops.append("prog %d %s" % (cb, " ; ".join(rng.choice(TIMER_ACTS) for _ in range(k))))
        ops.append("sched 0 %s 30 30" % rng.choice(["once", "rep"]))
        ops.append("sched 1 %s 30 31" % rng.choice(["once", "rep"]))
        for _ in range(rng.randint(2, 4)):
            ops += ["sleep 45", "pollone"]
            if rng.random() < 0.3:
                ops.append(rng.choice(TIMER_ACTS[:8]))
        ops += ["tcancel 0", "tcancel 1", "sleep 45", "pollone"]
        cases.append(("case", ops))
    return cases


PROG_TEMPLATES = [
    lambda rng, i, nobj: "",
    lambda rng, i, nobj: "start read %d %d %d" % (i, rng.choice([1, 4]), rd(i)),
    lambda rng, i, nobj: "cancel %d" % rng.randrange(nobj),
    lambda rng, i, nobj: "close %d" % rng.randrange(nobj),
    lambda rng, i, nobj: "post 40",
    lambda rng, i, nobj: "cancel %d ; start read %d 4 %d" % ((i + 1) % nobj, (i + 1) % nobj, rd((i + 1) % nobj)),
]


def random_case(rng, length, with_reg=False):
    kinds = [rng.choice(["sock", "piper", "sock"]) for _ in range(rng.randint(1, 3))]
    if rng.random() < 0.4:
        kinds.append("pipew")
    if with_reg and rng.random() < 0.5:
        kinds.append("reg")
    n = len(kinds)
    ops = setup(kinds, timers=1)
    readers = [i for i, k in enumerate(kinds) if k in ("sock", "piper", "reg")]
    writers = [i for i, k in enumerate(kinds) if k in ("sock", "pipew")]
    for i in readers:
        p = rng.choice(PROG_TEMPLATES)(rng, i, n)
        if p:
            ops.append("prog %d %s" % (rd(i), p))
    inflight_r, inflight_w, closed, ended = set(), set(), set(), set()
    for _ in range(length):
        r = rng.random()
        if r < 0.25 and readers:
            i = rng.choice(readers)
            if i in closed or i in inflight_r:
                continue
            kind = rng.choice(["read", "read", "readall"])
            forced = rng.random() < 0.2
            if forced:
                ops.append("depth 32")
            ops.append("start %s %d %d %d" % (kind, i, rng.choice([1, 4, 8]), rd(i)))
            if forced:
                ops.append("depth 0")
            inflight_r.add(i)
        elif r < 0.33 and writers:
            i = rng.choice(writers)
            if i in closed or i in ended:
                continue
            forced = rng.random() < 0.4
            if forced:
                ops.append("depth 32")
            ops.append("start %s %d %d %d" % (rng.choice(["write", "writeall"]), i, rng.choice([1, 4]), wr(i)))
            if forced:
                ops.append("depth 0")
        elif r < 0.55:
            i = rng.randrange(n)
            if kinds[i] in ("sock", "piper") and i not in ended:
                ops.append("peer %d data %d" % (i, rng.choice([1, 2, 4, 8, 16])))
        elif r < 0.62:
            i = rng.randrange(n)
            if kinds[i] in ("sock", "piper", "pipew") and i not in ended:
                what = rng.choice(["close", "close", "rst"]) if kinds[i] == "sock" else "close"
                ops.append("peer %d %s" % (i, what))
                ended.add(i)
        elif r < 0.85:
            ops.append("pollone")
            inflight_r.clear()
        elif r < 0.9:
            i = rng.randrange(n)
            ops.append("cancel %d" % i)
            inflight_r.discard(i)
        elif r < 0.93:
            i = rng.randrange(n)
            if i not in closed:
                ops.append("close %d" % i)
                closed.add(i)
        elif r < 0.97:
            ops.append("post %d" % (40 + rng.randrange(3)))
        else:
            ops.append("sched 0 once 20 30")
            ops.append("sleep 35")
    ops += ["pollone", "pollone"]
    return ("case", ops)


def batch_cases():
    """several descriptors ready in one poll batch; handlers cancel / close / re-arm themselves or another object"""
    cases = []
    base = setup(["sock", "sock", "piper"])
    starts = ["start read 0 4 10", "start read 1 4 11", "start read 2 4 12"]
    ready = ["peer 0 data 4", "peer 1 data 4", "peer 2 data 4"]
    for prog in ("cancel 1", "close 1", "cancel 1 ; start read 1 4 11", "close 0", "cancel 0", "start read 0 4 10", "cancel 2 ; cancel 1",
                 "close 1 ; close 2", "post 40", "cancel 1 ; depth-start 1"):
        for who in (10, 11, 12):
            if "depth-start" in prog:
                continue
            cases.append(("case", base + ["prog %d %s" % (who, prog)] + starts + ready + ["pollone", "pollone", "cancel 0", "cancel 1", "cancel 2"]))
    # peer behaviours with an operation in flight: half-close, close, RST, hang-up on a FIFO, with and without data
    for beh in (["peer 0 close"], ["peer 0 data 2", "peer 0 close"], ["peer 0 rst"], ["peer 0 data 2", "peer 0 rst"]):
        for kind in ("read", "readall"):
            cases.append(("case", setup(["sock"]) + ["start %s 0 4 10" % kind] + beh + ["pollone", "pollone", "pollone"]))
    for beh in (["peer 0 close"], ["peer 0 data 2", "peer 0 close"]):
        for kind in ("read", "readall"):
            cases.append(("case", setup(["piper"]) + ["start %s 0 4 10" % kind] + beh + ["pollone", "pollone", "pollone"]))
    cases.append(("case", setup(["pipew"]) + ["depth 32", "start write 0 4 20", "depth 0", "peer 0 close", "pollone", "pollone"]))
    # read and write in flight on the same object
    cases.append(("case", setup(["sock"]) + ["start read 0 4 10", "depth 32", "start write 0 4 20", "depth 0", "pollone", "peer 0 data 4", "pollone", "pollone"]))
    cases.append(("case", setup(["sock"]) + ["start read 0 4 10", "depth 32", "start write 0 4 20", "depth 0", "cancel 0", "pollone"]))
    cases.append(("case", setup(["sock"]) + ["start read 0 4 10", "depth 32", "start write 0 4 20", "depth 0", "close 0", "pollone"]))
    # ... and the completion of one direction closes / cancels / re-arms the object while the other is still owed: after the
    # Close inside the first callback nothing of the object may run (top-level Cancel, and both ready in one batch)
    for who, prog in ((10, "close 0"), (20, "close 0"), (10, "cancel 0"), (20, "cancel 0"), (10, "close 0 ; post 40"),
                      (10, "cancel 0 ; close 0"), (10, "start read 0 4 11")):
        both = setup(["sock"]) + ["prog %d %s" % (who, prog), "start read 0 4 10", "depth 32", "start write 0 4 20", "depth 0"]
        cases.append(("case", both + ["cancel 0", "pollone", "close 0"]))
        cases.append(("case", both + ["peer 0 data 4", "pollone", "pollone", "cancel 0", "close 0"]))
        cases.append(("case", both + ["pollone", "cancel 0", "pollone", "close 0"]))
    # a posted handler posts again (the new handler belongs to the next dispatch and its wake-up must survive the current one)
    cases.append(("case", ["prog 40 post 41", "post 40", "pollone", "pollone", "pollone"]))
    cases.append(("case", ["prog 40 post 41 ; post 42", "prog 41 post 43", "post 40", "pollone", "pollone", "pollone", "pollone"]))
    cases.append(("case", setup(["sock"]) + ["prog 40 post 41", "prog 41 start read 0 4 10", "post 40", "post 42", "pollone", "pollone", "peer 0 data 4", "pollone", "pollone"]))
    # the descriptor is closed underneath an object (and its number reused by something that cannot be polled): registrations
    # fail while the other direction is in flight; nothing may stay counted once the object is cancelled or closed
    for tail in (["close 0"], ["cancel 0", "close 0"], ["pollone", "close 0"]):
        cases.append(("case", setup(["sock"]) + ["start read 0 4 10", "peer 0 kill", "depth 32", "start write 0 4 20", "depth 0"] + tail + ["pollone"]))
        cases.append(("case", setup(["sock"]) + ["depth 32", "start write 0 4 20", "depth 0", "peer 0 kill", "depth 32", "start read 0 4 10", "depth 0"] + tail + ["pollone"]))
        cases.append(("case", setup(["sock"]) + ["peer 0 kill", "start read 0 4 10", "start write 0 4 20", "depth 32", "start read 0 4 10", "depth 0"] + tail + ["pollone"]))
    # a ReadAll that gets a part of its bytes, goes back to the poller and is completed later (the object has to stay in the
    # registry while it waits again), with and without the other direction in flight
    for kind in ("sock", "piper"):
        cases.append(("case", setup([kind]) + ["start readall 0 8 10", "peer 0 data 3", "pollone", "peer 0 data 3", "pollone", "peer 0 data 2", "pollone", "close 0"]))
    cases.append(("case", setup(["sock"]) + ["start readall 0 8 10", "depth 32", "start write 0 4 20", "depth 0", "peer 0 data 3", "pollone", "pollone", "peer 0 data 5", "pollone", "close 0"]))
    # packet conn: both directions in flight, handlers that close it, two packet conns ready in one batch
    cases.append(("case", setup(["pkt"]) + ["start read 0 4 10", "depth 32", "start write 0 4 20", "depth 0", "pollone", "peer 0 data 4", "pollone", "close 0", "close 0", "pollone"]))
    cases.append(("case", setup(["pkt"]) + ["start read 0 4 10", "depth 32", "start write 0 4 20", "depth 0", "close 0", "pollone", "start read 0 4 10", "start write 0 4 20"]))
    for who, prog in ((10, "close 0"), (20, "close 0"), (10, "close 1"), (10, "start read 0 4 10 ; close 0"), (10, "start write 1 4 21")):
        cases.append(("case", setup(["pkt", "pkt"]) + ["prog %d %s" % (who, prog), "start read 0 4 10", "start read 1 4 11", "depth 32", "start write 0 4 20", "depth 0",
                                                       "peer 0 data 4", "peer 1 data 4", "pollone", "pollone", "close 0", "close 1", "pollone"]))
    # writes that really block (the harness fills the send buffer behind the object's back) and complete after the peer drained it;
    # cancel / close / a second direction / handlers while the write is blocked
    for kind in ("sock", "pipew"):
        base = setup([kind]) + ["peer 0 fill", "start write 0 4 20", "pollone"]
        cases.append(("case", base + ["peer 0 drain 0", "pollone", "pollone", "close 0"]))
        cases.append(("case", base + ["cancel 0", "peer 0 drain 0", "pollone", "close 0"]))
        cases.append(("case", base + ["close 0", "peer 0 drain 0", "pollone"]))
        cases.append(("case", setup([kind]) + ["prog 20 start write 0 4 21", "peer 0 fill", "start writeall 0 4 20", "peer 0 drain 0", "pollone", "pollone", "close 0"]))
    for who, prog in ((10, "cancel 0"), (10, "close 0"), (20, "cancel 0"), (10, "start write 0 4 21"), (20, "start read 0 4 11")):
        cases.append(("case", setup(["sock"]) + ["prog %d %s" % (who, prog), "peer 0 fill", "start read 0 4 10", "start write 0 4 20", "peer 0 data 4",
                                                 "peer 0 drain 0", "pollone", "pollone", "cancel 0", "close 0"]))
    # descriptor number re-used inside one poll batch behind a hung-up, closed object (run by the driver as a whole)
    cases.append(("case", ["scenario hupreuse", "scenario hupreuse"]))
    # signals interrupting an untimed wait again and again
    cases.append(("case", ["scenario eintr"]))
    # nothing ready: timeout, not success
    cases.append(("case", setup(["sock"]) + ["pollone", "start read 0 4 10", "pollone", "cancel 0", "pollone"]))
    return cases
