"""C18 opening handshake: responses from a grammar, every segmentation, piggy-backed frames, server close at byte k."""
import random

DRIVER = "hs"
RULE = ("raw server socket; responses from the grammar status x {HTTP/1.1, HTTP/1.0} x header set (Upgrade, Connection, "
        "Sec-WebSocket-Accept: right / wrong / missing / duplicated, extra headers) x random order x random letter case x "
        "optional whitespace (none, spaces, tabs, trailing) x malformed lines; every single cut of a short response and "
        "random 2-3 cuts of the others (3 ms apart); with and without 1-3 frames piggy-backed in the same segment or "
        "following later; server close at every byte of a short response and at random bytes otherwise; responses larger "
        "than the 1024-byte buffer (to 5000 bytes) and above the 64 KiB limit; blocking and asynchronous; up to 4 handshakes "
        "on one stream after failure and after success; the request is judged by an independent parser (GET, Host, Upgrade, "
        "Connection, Version 13, fresh 16-byte base64 key, caller headers). distinct = (state, leftover length, result, "
        "segment count) model states; non-trivial = several segments and bytes after the head")
EXHAUSTIVE = {"quick": False, "thorough": False}
CLAUSES = {"1": "upgrade request malformed or key not fresh", "2": "stream not (active iff nil error) / not terminated after a failure",
           "3": "accepted although the response must be refused, or refused although status 101 + Upgrade: websocket + the right accept value",
           "4": "bytes held by the frame decoder after the handshake are not the bytes that followed the blank line",
           "5": "first messages after the handshake are not the frames the server sent after the response",
           "6": "a message was delivered that the server never sent", "7": "handshake did not complete", "panic": "call panicked"}
ASSUMPTIONS = ["loopback TCP; the server writes segments 3 ms apart (the kernel may still coalesce them: the outcome must not depend on it)"]


def attrs(o, case):
    f = o["op"].split()
    return {"op": f[0], "mode": f[1] if len(f) > 1 else "-"}


def hx(s):
    if isinstance(s, str):
        s = s.encode()
    return s.hex() if s else "-"


def frame(opcode, payload):
    n = len(payload)
    if n < 126:
        return bytes([0x80 | opcode, n]) + payload
    return bytes([0x80 | opcode, 126, n >> 8, n & 255]) + payload


def rcase(rng, s):
    return "".join(ch.upper() if rng.random() < 0.5 else ch.lower() for ch in s)


def ows(rng):
    return rng.choice(["", " ", "  ", "\t", " \t "])


def response(rng, kind):
    """returns (bytes with @A@ placeholder, expected verdict class)"""
    status = "101 Switching Protocols"
    proto = "HTTP/1.1"
    hdrs = [("Upgrade", "websocket"), ("Connection", "Upgrade"), ("Sec-WebSocket-Accept", "@A@")]
    want = 0
    if kind == "plain":
        pass
    elif kind == "status":
        status = rng.choice(["200 OK", "400 Bad Request", "101", "302 Found", "100 Continue"])
        want = 0 if status.startswith("101") else 1
    elif kind == "proto10":
        proto = "HTTP/1.0"
    elif kind == "wrongaccept":
        hdrs[2] = ("Sec-WebSocket-Accept", rng.choice(["AAAAAAAAAAAAAAAAAAAAAAAAAAA=", "@A@x", "x@A@", "", "@S@", "@S@"]))
        want = 1
    elif kind == "noaccept":
        hdrs.pop(2)
        want = 1
    elif kind == "noupgrade":
        hdrs.pop(0)
        want = 1
    elif kind == "wrongupgrade":
        hdrs[0] = ("Upgrade", rng.choice(["websockets", "h2c", "web socket"]))
        want = 1
    elif kind == "malformed":
        hdrs.insert(rng.randint(0, 3), ("garbage line without colon", None))
        want = 3
    elif kind == "big":
        for j in range(rng.randint(5, 60)):
            hdrs.insert(rng.randint(0, len(hdrs)), ("X-Pad-%d" % j, "p" * rng.randint(10, 80)))
    extra = [("Server", "verif"), ("X-A", "b c"), ("Date", "Mon, 01 Jan 2024 00:00:00 GMT")]
    for e in extra:
        if rng.random() < 0.4:
            hdrs.insert(rng.randint(0, len(hdrs)), e)
    if kind != "ordered":
        rng.shuffle(hdrs)
    lines = ["%s %s" % (proto, status)]
    for k, v in hdrs:
        if v is None:
            lines.append(k)
        else:
            name = rcase(rng, k)
            val = rcase(rng, v) if k == "Upgrade" and want == 0 and v == "websocket" else v
            lines.append(name + ":" + ows(rng) + val + ows(rng))
    return ("\r\n".join(lines) + "\r\n\r\n").encode(), want


def cases_for(rng, q):
    cases = []
    kinds = ["plain", "status", "proto10", "wrongaccept", "noaccept", "noupgrade", "wrongupgrade", "malformed", "big", "ordered"]
    # every single cut and every close point of one short canonical response with a piggy-backed frame
    short = b"HTTP/1.1 101 X\r\nUpgrade: websocket\r\nSec-WebSocket-Accept: @A@\r\n\r\n"
    fr = frame(1, b"hi")
    total = len(short) - 3 + 28 + len(fr)
    step = 7 if q else 1
    head_end = total - len(fr)
    # every cut around the blank line that ends the head, in both tiers; the other positions with a stride in the quick tier
    cutset = sorted(set(list(range(1, total, step)) + list(range(max(1, head_end - 6), min(total, head_end + 3)))))
    for cut in cutset:
        cases.append(("case", ["hs %s %s %d -1 %s 0" % (rng.choice(["sync", "async"]), hx(short), cut, hx(fr)), "read", "read"]))
    for k in range(0, total, step):
        cases.append(("case", ["hs %s %s - %d %s 0" % (rng.choice(["sync", "async"]), hx(short), k, hx(fr)), "read"]))
    # grammar
    for _ in range(40 if q else 800):
        ops = []
        for _ in range(rng.choice([1, 1, 2, 4])):
            kind = rng.choice(kinds)
            resp, want = response(rng, kind)
            frames = b"".join(frame(rng.choice([1, 2]), bytes(rng.randrange(256) for _ in range(rng.choice([0, 1, 5, 125, 126, 300]))))
                              for _ in range(rng.choice([0, 0, 1, 3])))
            nph = resp.count(b"@A@") + resp.count(b"@S@")
            n = len(resp) - 3 * nph + 28 * nph + len(frames)
            k = rng.choice([0, 0, 1, 2, 3])
            cuts = sorted(rng.sample(range(1, max(2, n)), min(k, max(0, n - 1))))
            close_at = rng.randrange(n) if rng.random() < 0.15 else -1
            ops.append("hs %s %s %s %d %s %d" % (rng.choice(["sync", "async"]), hx(resp), ",".join(map(str, cuts)) if cuts else "-",
                                                  close_at, hx(frames), rng.randint(0, 1)))
            ops += ["read"] * rng.choice([0, 1, 4])
        cases.append(("case", ops))
    # larger than the handshake buffer / above the limit
    for size in ([1500, 70000] if q else [1024, 1025, 1500, 2048, 5000, 65000, 66000, 70000, 140000]):
        pad = "X-Pad: " + "p" * 70 + "\r\n"
        body = "HTTP/1.1 101 X\r\nUpgrade: websocket\r\n" + pad * (size // len(pad)) + "Sec-WebSocket-Accept: @A@\r\n\r\n"
        cases.append(("case", ["hs sync %s %s -1 %s 0" % (hx(body), rng.choice(["-", "700", "1024,1030"]), hx(frame(2, b"abc"))), "read", "read",
                               "hs async %s - -1 - 0" % hx(short), "read"]))
    # the accept value with the case of its letters swapped: base64 is case sensitive, the response must be refused
    swapped = b"HTTP/1.1 101 X\r\nUpgrade: websocket\r\nSec-WebSocket-Accept: @S@\r\n\r\n"
    for mode in ("sync", "async"):
        cases.append(("case", ["hs %s %s - -1 %s 0" % (mode, hx(swapped), hx(fr)), "read", "hs %s %s - -1 %s 0" % (mode, hx(short), hx(fr)), "read"]))
    # more frame bytes behind the head than the decoder's buffer has room for without growing (4096): after a handshake whose long
    # head made the handshake buffer grow (the capacity is kept), and behind a head above 8 KiB in one segment
    many = b"".join(frame(1, bytes([65 + (i % 26)]) * 100) for i in range(60))
    pad = "X-Pad: " + "p" * 70 + "\r\n"
    long_head = "HTTP/1.1 101 X\r\nUpgrade: websocket\r\n" + pad * (5000 // len(pad)) + "Sec-WebSocket-Accept: @A@\r\n\r\n"
    longer_head = "HTTP/1.1 101 X\r\nUpgrade: websocket\r\n" + pad * (9000 // len(pad)) + "Sec-WebSocket-Accept: @A@\r\n\r\n"
    for mode in ("sync", "async"):
        cases.append(("case", ["hs %s %s - -1 - 0" % (mode, hx(long_head)), "hs %s %s - -1 %s 0" % (mode, hx(short), hx(many))] + ["read"] * 62))
        cases.append(("case", ["hs %s %s - -1 %s 0" % (mode, hx(longer_head), hx(many)), "read", "read"]))
    return cases


def generate(tier, seed):
    rng = random.Random(seed)
    return [("handshakes", DRIVER, cases_for(rng, tier == "quick"))]
