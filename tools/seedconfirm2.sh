#!/bin/bash
# like seedconfirm.sh but the demo lives in <demodir> and the suite args follow
export GOFLAGS=-mod=mod GOPROXY=off
P=${1:?}; dir=${2:?}; shift 2
wt=/tmp/seed/$P
cd "$wt" || exit 2
git checkout -q -- .
cp /verif/seeded/$P/demo_test.go "$wt/$dir/zz_seed_demo_test.go"
a=$(go test -vet=off -count=1 -run TestSeededDemo ./$dir/ 2>&1 | tail -1)
git apply /verif/seeded/$P/patch.diff
b=$(go test -vet=off -count=1 -run TestSeededDemo ./$dir/ 2>&1 | tail -1)
git clean -q -f -- "$dir/zz_seed_demo_test.go"
c=$(go test -vet=off -count=1 "$@" 2>&1 | tail -3 | tr '\n' ' ')
echo "$P | demo without change: $a | demo with change: $b | suite with change: $c"
