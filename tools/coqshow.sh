#!/bin/sh
# usage: coqshow.sh File.v LINE  -- compile a copy of File.v truncated before line LINE with "Show." appended
f=$1; n=$2
d=$(dirname $f); b=$(basename $f .v)
head -n $((n-1)) $f > $d/Tmp_$b.v
echo "Show." >> $d/Tmp_$b.v
echo "Abort." >> $d/Tmp_$b.v
cd /verif/coq && coqc -Q . Sonic $d/Tmp_$b.v 2>&1 | head -${3:-80}
rm -f $d/Tmp_$b.v $d/Tmp_$b.vo $d/Tmp_$b.glob $d/Tmp_$b.vok $d/Tmp_$b.vos $d/.Tmp_$b.aux
