"""Orchestration shared by all property checks (see DESIGN.md §5).

A check run: regenerate Gen/*.v from /repo, rebuild the Coq development, re-extract and rebuild modelrun, rebuild the
Go harness against /repo (tag verif), generate scripts, run them on the implementation, replay them on the extracted
model (correspondence) and through the extracted oracle (property), decide, write evidence.
"""
import fcntl
import hashlib
import json
import os
import random
import re
import shutil
import subprocess
import sys
import time

VERIF = os.path.dirname(os.path.dirname(os.path.abspath(__file__)))
REPO = os.environ.get("VERIF_REPO", "/repo")
COQ = os.path.join(VERIF, "coq")
BIN = os.path.join(VERIF, "bin")
WORK = os.path.join(VERIF, "work")
GOROOT_124 = "/root/go/pkg/mod/golang.org/toolchain@v0.0.1-go1.24.1.linux-amd64"

TRUSTED_BASE = [
    "Coq 8.16.1 kernel (coqc), incl. vm_compute; no native_compute",
    "axioms: none (Print Assumptions under every property theorem says 'Closed under the global context')",
    "Go->Gallina translator /verif/translator (constants, predicates, BipBuffer, MirroredBuffer cursors, OffsetSlot)",
    "extraction: ExtrOcamlBasic only (bool option unit list prod sumbool sumor); Z/N/positive/nat stay Coq datatypes; no Extract Constant",
    "OCaml 4.13.1 + /verif/ocaml drivers (parsing/printing), Go harness /verif/harness (drivers, generators in /verif/tools)",
    "hand-written models are tied to the code by the correspondence run only (scripts explored, not all inputs)",
    "Go toolchain/runtime, Linux kernel for the implementation side",
]


def goenv():
    env = dict(os.environ)
    env["GOFLAGS"] = "-mod=mod"
    env["GOPROXY"] = "off"
    env.pop("GOSUMDB", None)
    if os.path.isdir(GOROOT_124):
        env["PATH"] = os.path.join(GOROOT_124, "bin") + ":" + env.get("PATH", "")
        env["GOTOOLCHAIN"] = "local"
    env.setdefault("GOCACHE", "/root/.cache/go-build")
    return env


def sh(cmd, cwd=None, timeout=1800, env=None, stdin=None):
    p = subprocess.run(cmd, cwd=cwd, env=env, input=stdin, stdout=subprocess.PIPE, stderr=subprocess.STDOUT,
                       timeout=timeout, shell=isinstance(cmd, str), text=True)
    return p.returncode, p.stdout


class Lock:
    def __enter__(self):
        os.makedirs(WORK, exist_ok=True)
        self.f = open(os.path.join(WORK, ".lock"), "w")
        fcntl.flock(self.f, fcntl.LOCK_EX)
        return self

    def __exit__(self, *a):
        fcntl.flock(self.f, fcntl.LOCK_UN)
        self.f.close()


# ------------------------------------------------------------------------------------------------------------------
# build steps

class BuildState:
    def __init__(self):
        self.translator_ok = True
        self.translator_msg = ""
        self.coq_ok = True
        self.coq_log = ""
        self.failed_files = []
        self.modelrun = os.path.join(BIN, "modelrun")
        self.modelrun_fresh = True
        self.harness_ok = True
        self.harness_log = ""


def file_sig(paths):
    h = hashlib.sha256()
    for p in sorted(paths):
        try:
            st = os.stat(p)
            h.update(("%s:%d:%d;" % (p, st.st_mtime_ns, st.st_size)).encode())
        except FileNotFoundError:
            h.update((p + ":missing;").encode())
    return h.hexdigest()


def all_files(root, suffixes):
    out = []
    for d, _, fs in os.walk(root):
        for f in fs:
            if f.endswith(suffixes):
                out.append(os.path.join(d, f))
    return out


def build_all(prop_file=None, verbose=False):
    """Regenerate + rebuild everything a check needs.  Returns BuildState."""
    bs = BuildState()
    env = goenv()
    os.makedirs(BIN, exist_ok=True)
    os.makedirs(WORK, exist_ok=True)
    with Lock():
        # translator (rebuilt only when its source changed)
        tsrc = all_files(os.path.join(VERIF, "translator"), (".go", ".mod"))
        sig = file_sig(tsrc)
        sigf = os.path.join(WORK, "translator.sig")
        old = open(sigf).read() if os.path.exists(sigf) else ""
        if not os.path.exists(os.path.join(BIN, "translator")) or old != sig:
            rc, out = sh(["go", "build", "-o", os.path.join(BIN, "translator"), "."], cwd=os.path.join(VERIF, "translator"), env=env)
            if rc != 0:
                bs.translator_ok = False
                bs.translator_msg = "translator build failed: " + out
            else:
                open(sigf, "w").write(sig)
        if bs.translator_ok:
            rc, out = sh([os.path.join(BIN, "translator"), "-repo", REPO, "-out", os.path.join(COQ, "Gen")])
            if rc != 0:
                bs.translator_ok = False
                bs.translator_msg = out.strip()
        # Coq
        if not os.path.exists(os.path.join(COQ, "Makefile")) or \
                os.path.getmtime(os.path.join(COQ, "Makefile")) < os.path.getmtime(os.path.join(COQ, "_CoqProject")):
            sh(["coq_makefile", "-f", "_CoqProject", "-o", "Makefile"], cwd=COQ)
        rc, out = sh(["make", "-k", "-j16"], cwd=COQ, timeout=3000)
        bs.coq_log = out
        if rc != 0:
            bs.coq_ok = False
            bs.failed_files = sorted(set(re.findall(r'File "\./([^"]+)", line', out)))
        # extraction + modelrun (only when a .vo it depends on is newer than the binary)
        mr = os.path.join(BIN, "modelrun")
        vo = all_files(COQ, (".vo",))
        ml = all_files(os.path.join(VERIF, "ocaml"), (".ml",))
        ml = [m for m in ml if not m.endswith("/model.ml")]
        newest = max([os.path.getmtime(p) for p in vo + ml] + [0])
        need = not os.path.exists(mr) or os.path.getmtime(mr) < newest
        if need:
            ok = True
            rc, out = sh(["coqc", "-Q", COQ, "Sonic", os.path.join(COQ, "Extract", "Extract.v")], cwd=os.path.join(VERIF, "ocaml"), timeout=900)
            if rc != 0:
                ok = False
                bs.coq_log += "\n[extraction]\n" + out
            if ok:
                srcs = ["model.mli", "model.ml", "common.ml"] + sorted(
                    os.path.basename(m) for m in ml if os.path.basename(m) not in ("common.ml", "main.ml")) + ["main.ml"]
                rc, out = sh(["ocamlfind", "ocamlopt", "-package", "str", "-linkpkg", "-O3", "-w", "-a"] + srcs + ["-o", mr + ".new"], cwd=os.path.join(VERIF, "ocaml"), timeout=900)
                if rc != 0:
                    ok = False
                    bs.coq_log += "\n[ocaml]\n" + out
                else:
                    os.replace(mr + ".new", mr)
            if not ok:
                bs.modelrun_fresh = False
                good = os.path.join(BIN, "modelrun.good")
                bs.modelrun = good if os.path.exists(good) else None
        # harness
        rc, out = sh(["go", "build", "-tags", "verif", "-o", os.path.join(BIN, "harness"), "./cmd/harness"],
                     cwd=os.path.join(VERIF, "harness"), env=env, timeout=1200)
        if rc != 0:
            bs.harness_ok = False
            bs.harness_log = out
    return bs


def prop_proof_status(pid, bs):
    """Compile status of Properties/<pid>.v: (ok, theorem names, assumptions text)."""
    pf = os.path.join(COQ, "Properties", pid + ".v")
    if not os.path.exists(pf):
        return False, [], "no property file"
    src = open(pf).read()
    theorems = re.findall(r'^\s*(?:Theorem|Corollary)\s+([A-Za-z0-9_\']+)', src, re.M)
    vo = pf[:-2] + ".vo"
    ok = os.path.exists(vo) and os.path.getmtime(vo) >= os.path.getmtime(pf) and not any(
        f.startswith("Properties/" + pid) for f in bs.failed_files)
    if ok:
        # make -k leaves a stale .vo when a dependency failed: check dependencies through the make log
        if re.search(r"Properties/%s\.(vo|v)" % pid, bs.coq_log) and "Error" in bs.coq_log and not bs.coq_ok:
            # be precise: ask make whether the target is up to date
            rc, _ = sh(["make", "-q", "Properties/%s.vo" % pid], cwd=COQ)
            ok = rc == 0
        elif not bs.coq_ok:
            rc, _ = sh(["make", "-q", "Properties/%s.vo" % pid], cwd=COQ)
            ok = rc == 0
    assumptions = ""
    if ok:
        rc, out = sh(["coqc", "-Q", COQ, "Sonic", "-w", "-notation-overridden", pf], cwd=COQ, timeout=900)
        assumptions = out
        if rc != 0:
            ok = False
    return ok, theorems, assumptions


def grep_forbidden():
    bad = []
    pat = re.compile(r'\b(Admitted|admit|Axiom|Parameter|Conjecture|Unset Guard|bypass_check|type-in-type|impredicative-set|Admit Obligations)\b')
    for f in all_files(COQ, (".v",)) + [os.path.join(COQ, "_CoqProject")]:
        for i, line in enumerate(open(f, errors="replace"), 1):
            code = re.sub(r'\(\*.*?\*\)', '', line)
            if pat.search(code):
                bad.append("%s:%d: %s" % (os.path.relpath(f, VERIF), i, line.strip()))
    return bad


# ------------------------------------------------------------------------------------------------------------------
# pipeline

def cases_to_text(cases):
    out = []
    for header, ops in cases:
        out.append(header)
        out.extend(ops)
        out.append("end")
    return "\n".join(out) + "\n"


class PipeResult:
    def __init__(self):
        self.mismatches = []   # dict(case, step, op, model, impl)
        self.oracle = []       # dict(case, step, clause, op, detail)
        self.stats = {}
        self.hist = {}
        self.traces = []       # list of (header, [(op, obs)])
        self.errors = []
        self.crash = None      # dict(case, script, stderr): the implementation brought the harness process down / hung it


def _harness_dies(driver, cases, env, timeout):
    """True (with stderr head) if the harness process exits non-zero or exceeds the timeout on these cases."""
    try:
        p = subprocess.run([os.path.join(BIN, "harness"), "run", driver], input=cases_to_text(cases), stdout=subprocess.DEVNULL,
                           stderr=subprocess.PIPE, timeout=timeout, env=env, text=True)
    except subprocess.TimeoutExpired:
        return True, "harness did not finish within %d s (hang or unbounded loop)" % timeout
    return p.returncode != 0, p.stderr[:1500]


def find_crash(driver, cases, env, timeout=60):
    """The harness died on this case list: narrow it down to one case and a minimal prefix of its operations."""
    dies, err = _harness_dies(driver, cases, env, timeout)
    if not dies:
        return None
    lo = list(cases)
    while len(lo) > 1:
        half = lo[:len(lo) // 2]
        d, e = _harness_dies(driver, half, env, timeout)
        if d:
            lo, err = half, e
        else:
            rest = lo[len(lo) // 2:]
            d, e = _harness_dies(driver, rest, env, timeout)
            if not d:
                break          # only the combination dies: keep the whole list
            lo, err = rest, e
    header, ops = lo[0]
    a, b = 1, len(ops)
    while a < b:
        m = (a + b) // 2
        d, e = _harness_dies(driver, [(header, ops[:m])], env, timeout)
        if d:
            b, err = m, e
        else:
            a = m + 1
    return dict(case=cases.index(lo[0]) if lo[0] in cases else 0, header=header, script=ops[:a], stderr=err)


def _big_stack():
    # the extracted list functions are not tail recursive; multi-megabyte streams need a deep native stack
    import resource
    try:
        resource.setrlimit(resource.RLIMIT_STACK, (4 << 30, resource.RLIM_INFINITY))
    except (ValueError, OSError):
        pass


def run_pipeline(driver, cases, bs, tag="run", model_driver=None, harness_env=None, timeout=900):
    """cases: list of (header, [op lines]).  Runs implementation and model."""
    res = PipeResult()
    os.makedirs(WORK, exist_ok=True)
    sf = os.path.join(WORK, "%s.%s.scripts" % (driver, tag))
    tf = os.path.join(WORK, "%s.%s.traces" % (driver, tag))
    open(sf, "w").write(cases_to_text(cases))
    env = goenv()
    if harness_env:
        env.update(harness_env)
    try:
        with open(sf) as fin, open(tf, "w") as fout:
            p = subprocess.run([os.path.join(BIN, "harness"), "run", driver], stdin=fin, stdout=fout, stderr=subprocess.PIPE,
                               timeout=timeout, env=env, text=True)
        rc, errtxt = p.returncode, p.stderr
    except subprocess.TimeoutExpired:
        rc, errtxt = -1, "harness timeout"
    if rc != 0:
        # the implementation took the process down (fatal error, stack exhaustion) or hung it: find the script
        res.crash = find_crash(driver, cases, env)
        if res.crash is None:
            res.errors.append("harness exit %d: %s" % (rc, errtxt[:2000]))
        return res
    # parse traces
    cur = None
    for line in open(tf):
        line = line.rstrip("\n")
        if line.startswith("case"):
            cur = (line, [])
            res.traces.append(cur)
        elif line == "end":
            cur = None
        elif cur is not None and " => " in line:
            op, obs = line.split(" => ", 1)
            cur[1].append((op, obs))
    if bs.modelrun is None:
        res.errors.append("no modelrun binary available")
        return res
    # split the traces into chunks and replay them on the model in parallel
    blocks = []
    cur_block = []
    for line in open(tf):
        cur_block.append(line)
        if line.rstrip("\n") == "end":
            blocks.append(cur_block)
            cur_block = []
    nchunks = max(1, min(16, len(blocks) // 20))
    per = (len(blocks) + nchunks - 1) // nchunks if blocks else 1
    procs = []
    for ci in range(nchunks):
        part = blocks[ci * per:(ci + 1) * per]
        if not part:
            continue
        pf = "%s.part%d" % (tf, ci)
        with open(pf, "w") as f:
            for b in part:
                f.writelines(b)
        args = [bs.modelrun, model_driver or driver]
        if not bs.modelrun_fresh:
            args.append("--oracle-only")
        env2 = dict(os.environ)
        env2["MODELRUN_DIGESTS"] = pf + ".dig"
        procs.append((ci * per, pf, subprocess.Popen(args, stdin=open(pf), stdout=subprocess.PIPE, stderr=subprocess.PIPE, text=True, env=env2,
                                                     preexec_fn=_big_stack)))
    digests = {}
    for offset, pf, p in procs:
        try:
            out, err = p.communicate(timeout=timeout)
        except subprocess.TimeoutExpired:
            p.kill()
            res.errors.append("modelrun timeout")
            continue
        if p.returncode != 0:
            res.errors.append("modelrun exit %d: %s" % (p.returncode, err[-2000:]))
            continue
        for line in out.splitlines():
            if line.startswith("MISMATCH"):
                m = re.match(r'MISMATCH case=(\d+) step=(\d+) op=\[(.*?)\] model=\[(.*?)\] impl=\[(.*)\]$', line)
                if m and bs.modelrun_fresh:
                    res.mismatches.append(dict(case=int(m.group(1)) + offset, step=int(m.group(2)), op=m.group(3), model=m.group(4), impl=m.group(5)))
            elif line.startswith("ORACLE-FAIL"):
                m = re.match(r'ORACLE-FAIL case=(\d+) step=(\d+) clause=(\S+) op=\[(.*?)\] ?(.*)$', line)
                if m:
                    res.oracle.append(dict(case=int(m.group(1)) + offset, step=int(m.group(2)), clause=m.group(3), op=m.group(4), detail=m.group(5)))
            elif line.startswith("STATS"):
                for kvp in line.split()[1:]:
                    k, v = kvp.split("=")
                    if k not in ("distinct_states", "nontrivial_states"):
                        res.stats[k] = res.stats.get(k, 0) + int(v)
            elif line.startswith("HIST"):
                for kvp in line.split()[1:]:
                    k, v = kvp.rsplit("=", 1)
                    res.hist[k] = res.hist.get(k, 0) + int(v)
        try:
            for line in open(pf + ".dig"):
                d, nt = line.split()
                digests[d] = max(digests.get(d, 0), int(nt))
            os.remove(pf + ".dig")
        except FileNotFoundError:
            pass
        try:
            os.remove(pf)
        except FileNotFoundError:
            pass
    res.stats["distinct_states"] = len(digests)
    res.stats["nontrivial_states"] = sum(digests.values())
    res.digests = digests
    res.mismatches.sort(key=lambda m: (m["case"], m["step"]))
    res.oracle.sort(key=lambda m: (m["case"], m["step"]))
    return res


def shrink(driver, case, want, bs, model_driver=None, harness_env=None, max_rounds=200):
    """Delta-debug the op list of `case` (header, ops) while predicate `want(PipeResult, idx)` stays true."""
    header, ops = case
    ops = list(ops)
    rounds = 0
    chunk = max(1, len(ops) // 2)
    while chunk >= 1 and rounds < max_rounds:
        cands = []
        i = 0
        while i < len(ops):
            cand = ops[:i] + ops[i + chunk:]
            if cand:
                cands.append(cand)
            i += chunk
        if not cands:
            break
        res = run_pipeline(driver, [(header, c) for c in cands], bs, tag="shrink", model_driver=model_driver, harness_env=harness_env)
        rounds += 1
        hit = None
        for idx in range(len(cands)):
            if want(res, idx):
                hit = idx
                break
        if hit is not None:
            ops = cands[hit]
            chunk = max(1, min(chunk, len(ops) // 2)) if len(ops) > 1 else 1
            if len(ops) == 1:
                break
        else:
            if chunk == 1:
                break
            chunk //= 2
    return (header, ops)


# ------------------------------------------------------------------------------------------------------------------
# known findings, evidence, verdicts

def load_known():
    p = os.path.join(VERIF, "known_findings.json")
    if not os.path.exists(p):
        return []
    return json.load(open(p))


def match_known(pid, clause, attrs):
    for k in load_known():
        if k.get("property") != pid or k.get("status") != "known":
            continue
        if str(k.get("clause")) != str(clause):
            continue
        ka = k.get("attributes", {})
        if all(str(attrs.get(a)) == str(v) for a, v in ka.items()):
            return k
    return None


def write_replay(pid, seed, payload):
    d = os.path.join(VERIF, "replays")
    os.makedirs(d, exist_ok=True)
    n = 0
    while True:
        p = os.path.join(d, "%s-%d-%d.json" % (pid, seed, n))
        if not os.path.exists(p):
            break
        n += 1
    payload = dict(payload)
    payload["property"] = pid
    payload["rerun"] = "./check %s --replay %s" % (pid, os.path.relpath(p, VERIF))
    json.dump(payload, open(p, "w"), indent=1)
    return os.path.relpath(p, VERIF)


def write_evidence(pid, tier, seed, coverage, wall, violations, assumptions):
    d = os.path.join(VERIF, "evidence")
    os.makedirs(d, exist_ok=True)
    ev = dict(property_id=pid, tier=tier, seed=seed, level="proof", coverage=coverage, assumptions=assumptions,
              wall_s=round(wall, 2), violations=violations)
    tmp = os.path.join(d, pid + ".json.tmp")
    json.dump(ev, open(tmp, "w"), indent=1)
    os.replace(tmp, os.path.join(d, pid + ".json"))
