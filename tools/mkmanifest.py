#!/usr/bin/env python3
"""Regenerates /verif/MANIFEST.json from tools/manifest_data.py."""
import json, os, sys
sys.path.insert(0, os.path.dirname(os.path.abspath(__file__)))
import manifest_data as md

props = [json.loads(l) for l in open(os.path.join(os.path.dirname(__file__), "..", "properties.jsonl"))]
checks = []
na = []
for p in props:
    pid = p["id"]
    if pid in md.CLAIMED:
        c = md.CLAIMED[pid]
        checks.append(dict(
            property_id=pid,
            quick_cmd="./check %s --tier quick" % pid,
            thorough_cmd="./check %s --tier thorough" % pid,
            evidence_file="/verif/evidence/%s.json" % pid,
            replay_cmd_template="./check %s --replay {path}" % pid,
            engine="coq-proof+correspondence",
            level_claimed=dict(category="proof", text=c["text"], design_ref=c.get("design_ref", "DESIGN.md §7 " + pid)),
            level_note=c["note"],
            technique=c["technique"]))
    else:
        na.append(dict(property_id=pid, reason=md.NOT_APPLICABLE.get(pid, "check not built yet (see DESIGN.md §10 build order); not claimed in this commit")))
m = dict(
    version=1,
    setup_cmd="./setup.sh",
    hooks=dict(guard="verif", enable="go build -tags verif (harness module /verif/harness, replace github.com/talostrading/sonic => /repo)",
               baseline_off_cmd="cd /repo && GOFLAGS=-mod=mod GOPROXY=off go test -json -vet=off -count=1 -timeout 25m ./...",
               source_commits=md.HOOK_COMMITS, add_only=True),
    engines=[dict(name="coq-proof+correspondence", path="/verif/check",
                  serves_properties=sorted(md.CLAIMED.keys()),
                  kind_free_text="Coq 8.16.1 theorems about executable Gallina models (partly regenerated from the Go source by /verif/translator), tied to /repo by running the extracted model and an extracted specification oracle against the real code on generated scripts")],
    checks=checks,
    notes=md.NOTES,
    not_applicable=na)
json.dump(m, open(os.path.join(os.path.dirname(__file__), "..", "MANIFEST.json"), "w"), indent=1)
print("claimed:", len(checks), "not claimed:", len(na))
