#!/bin/bash
# usage: seedconfirm3.sh <seed dir name> <worktree name> <demodir> <go test args for the suite...>
export GOFLAGS=-mod=mod GOPROXY=off
S=${1:?}; W=${2:?}; dir=${3:?}; shift 3
wt=/tmp/seed/$W
cd "$wt" || exit 2
git checkout -q -- . ; git clean -q -f
cp /verif/seeded/$S/demo_test.go "$wt/$dir/zz_seed_demo_test.go"
a=$(go test -vet=off -count=1 -run TestSeededDemo ./$dir/ 2>&1 | tail -1)
git apply /verif/seeded/$S/patch.diff || exit 2
b=$(go test -vet=off -count=1 -run TestSeededDemo ./$dir/ 2>&1 | tail -1)
rm -f "$dir/zz_seed_demo_test.go"
c=$(go test -vet=off -count=1 "$@" 2>&1 | tail -3 | tr '\n' ' ')
echo "$S | demo without change: $a | demo with change: $b | suite with change: $c"
