HOOK_COMMITS = []
NOTES = ("Technique family: machine-checked proof in Coq 8.16.1. Every check regenerates coq/Gen from /repo, rebuilds the "
         "Coq development (full .vo), re-extracts the model, rebuilds the Go harness against /repo with -tags verif, and "
         "runs the correspondence + oracle pipeline. See DESIGN.md.")
NOT_APPLICABLE = {}
CLAIMED = {
 "C10": dict(
   text=("Coq theorems (9, closed under the global context) about the BipBuffer cursor code REGENERATED from "
         "bip_buffer.go on every run: invariant on every reachable state, no panic, FIFO over whole histories "
         "(queue = committed log minus consumed prefix; Committed() exact), commit chunk contiguous and inside one "
         "region, Head is the oldest bytes, Consume drops exactly min(n,|Head|), writes through any live claim never "
         "change the queue, empty buffer grants min(n,size); for every size and every history with non-negative "
         "arguments. The regenerated model is additionally run against the real code (offsets via unsafe pointer "
         "difference, contents, counters) and an extracted spec oracle judges the implementation's traces."),
   note=("Trusted: Coq kernel, the Go->Gallina translator (validated each run by the correspondence), extraction "
         "(ExtrOcamlBasic), OCaml/Go harness glue. The byte array and the caller's writes are hand-modelled "
         "(Model/BipMem.v). Prefault() and NewBipBuffer's make() are not modelled."),
   technique="Coq proof (invariant + refinement by induction over histories) on a model regenerated from the Go source; differential correspondence + extracted oracle"),
}
