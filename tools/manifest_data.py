HOOK_COMMITS = ["37f15b8", "df87741", "8885e82", "f24b31a", "6c95543"]
NOTES = ("Technique family: machine-checked proof in Coq 8.16.1. Every check regenerates coq/Gen from /repo, rebuilds the "
         "Coq development (full .vo), re-extracts the model, rebuilds the Go harness against /repo with -tags verif, and "
         "runs the correspondence + oracle pipeline. See DESIGN.md.")
NOT_APPLICABLE = {}
CLAIMED = {
 "C10": dict(
   text=("Coq theorems (9, closed under the global context) about the BipBuffer cursor code REGENERATED from "
         "bip_buffer.go on every run: invariant on every reachable state, no panic, FIFO over whole histories "
         "(queue = committed log minus consumed prefix; Committed() exact), commit chunk contiguous and inside one "
         "region, Head is the oldest bytes, Consume drops exactly min(n,|Head|), writes through any live claim never "
         "change the queue, empty buffer grants min(n,size); for every size and every history with non-negative "
         "arguments. The regenerated model is additionally run against the real code (offsets via unsafe pointer "
         "difference, contents, counters) and an extracted spec oracle judges the implementation's traces."),
   note=("Trusted: Coq kernel, the Go->Gallina translator (validated each run by the correspondence), extraction "
         "(ExtrOcamlBasic), OCaml/Go harness glue. The byte array and the caller's writes are hand-modelled "
         "(Model/BipMem.v). Prefault() and NewBipBuffer's make() are not modelled."),
   technique="Coq proof (invariant + refinement by induction over histories) on a model regenerated from the Go source; differential correspondence + extracted oracle"),
 "C11": dict(
   text=("Coq theorems (8, closed under the global context) about the MirroredBuffer cursor code, the constructor's size "
         "rounding and its field initialisers, all REGENERATED from bytes/mirrored_buffer.go on every run: the constructor "
         "accepts exactly positive sizes and rounds to the next page multiple; for every accepted size (power of two or "
         "not) and every history: no panic, invariant tail = head+used mod size, used+free = size, claims are one "
         "contiguous slice of min(n,free) bytes at the tail inside the 2*size mapping, commits occupy consecutive ring "
         "positions, consume frees the oldest bytes, and no position a claim can cover is the position of a queued byte. "
         "Partial: the byte-level statements (written bytes read back unchanged) are carried by the executable memory "
         "model only through the correspondence run; the mmap aliasing and the release of mappings/backing file are "
         "observed by the harness (mirror=1, /proc/self/maps, stat), not proved."),
   note=("Trusted: Coq kernel, translator, extraction, harness glue; environment assumption: virtual offset a of the double "
         "mapping is ring byte a mod size. Page size 4096 in the executable runs (the theorems hold for any page size)."),
   technique="Coq proof (modular-arithmetic invariant over histories) on a model regenerated from the Go source; differential correspondence + extracted ring oracle"),
 "C09": dict(
   text=("Coq theorems (5, closed under the global context): the hand-written model of byte_buffer.go (indices + bytes, "
         "int64 wrap-around written into the model where an argument is added to an index) REFINES the three-FIFO "
         "specification for every one of the 21 operations of the public API and every integer argument - regions "
         "(saved, readable, uncommitted, room) and results - keeps the invariant 0<=si<=ri<=wi=len<=cap, never panics, "
         "and this lifts by induction to every history from a fresh buffer. The model is tied to the code by running it "
         "and the real ByteBuffer on the same scripts (all 1- and 2-call sequences over the full API x boundary "
         "arguments incl. MaxInt64/MinInt64 from 4 start states, random histories through reallocation, scripted "
         "readers/writers), comparing all three regions, Reserved(), Len() and results after every call; the extracted "
         "specification independently judges the implementation's traces."),
   note=("Trusted: Coq kernel, extraction, harness glue. Side conditions (env_ok): Reserve requests fit in memory (n <= 2^20 in "
         "the runs), capacity reported after append is at least the needed one, a caller claiming n bytes wrote n bytes, "
         "readers/writers conform to io.Reader/io.Writer. Prefault and slack bytes beyond len are not modelled."),
   technique="Coq refinement proof (model -> abstract three-FIFO spec, all ops, all int64 arguments, induction over histories); differential correspondence + extracted oracle"),
 "C20": dict(
   text=("PARTIAL proof + full correspondence. Coq theorems (5, closed): sequencedSlots.Push/Pop against a finite map "
         "(sortedness invariant; duplicates and the slot limit rejected without disturbing stored entries; pop removes "
         "exactly the requested entry), the regenerated OffsetSlot, and the Fenwick tree's unit responses for every size "
         "<= 64 (kernel-evaluated finite sweep) lifted, by linearity of Add and SumUntil in the stored array, to the prefix-sum "
         "contract for every history of in-range Adds with arbitrary deltas on those sizes. The end-to-end statement (the slot popped for a number addresses exactly "
         "the bytes saved under it whatever was discarded before; Bytes()/Size() totals; capacity errors leave state "
         "intact) is decided on the implementation by the extracted ParkedMap oracle over every interleaving of <= 4 (5 "
         "thorough) pushes with pops in every order, capacity edges, never-draining sequencers until the offset index "
         "runs out, duplicates, zero-length packets, random histories, and on the executable model of the whole stack "
         "(Fenwick + offsetter + container + sequencer + ByteBuffer save area) which is compared with the real code after "
         "every call; its Coq proof for all histories is not done."),
   note=("Trusted: Coq kernel, translator (OffsetSlot), extraction, harness. Protocol assumed: push right after Save, Discard "
         "right after Pop, a failed push is followed by discarding the just-saved slot. sort.Search is modelled as 'first "
         "index with seq >= x' (its contract on a sorted slice)."),
   technique="Coq proof of the container/offset components + kernel-evaluated finite sweep; differential correspondence of the full stack + extracted oracle"),
 "C07": dict(
   text=("Coq theorems (5, closed): the model of FrameCodec.Decode (incl. the int(uint64) conversion) returns, for EVERY "
         "unread byte string, exactly what the pure arithmetic RFC 6455 parser returns (next frame's exact bytes / need "
         "more / too big), never panics and consumes exactly that frame; yielded frames are within the maximum (64-bit "
         "lengths with the top bit set are rejected); any interleaving of feeds with arbitrary split points and decodes "
         "delivers exactly the parser's frames of the concatenated input (split-independence, in sync), by induction "
         "over sessions of any length; decode(encode(frame)) is the identical frame for every FIN/RSV/opcode/mask and "
         "every payload length <= max. The model is run against the real FrameCodec (malformed headers x boundary length "
         "fields x every split point, random bytes, well-formed multi-frame streams cut everywhere, encoder round trips "
         "over all header combinations and length classes 0..65536/max/max+1) and the extracted parser judges the "
         "implementation independently."),
   note=("Trusted: Coq kernel, translator (constants), extraction, harness. The decoder model sits on the three-FIFO "
         "specification of ByteBuffer (C09 refinement). Frame.ReadFrom (unused by the stream) is not modelled."),
   technique="Coq refinement proof (decoder model = pure parser, induction over sessions, round-trip law); differential correspondence + extracted parser oracle"),
 "C19": dict(
   text=("Coq theorems (5, closed): the model of codec/frame Decode returns for EVERY unread byte string exactly the pure "
         "parser's verdict (next payload / need more / overflow before any buffering), never panics, consumes exactly the "
         "item; ReadNext/AsyncReadNext over a transport delivering the bytes in ANY segmentation (any chunking, would-block "
         "mid-item, EOF, errors) delivers an item iff it is the next item of the byte stream and otherwise loses no byte "
         "(induction over the transport's event queue); decode(encode(p)) = p and a whole payload sequence written back "
         "to back decodes to the same sequence; WriteNext on a healthy transport puts exactly the encoded item on the wire "
         "and leaves nothing behind. The model (codec + CodecConn + scripted transport) is compared with the real "
         "CodecConn over an in-memory sonic.Stream after every call (every cut offset, per-read limits, sync/async, "
         "hostile prefixes, partial-accept and failing transports for every failure offset, parked async writes), and over a "
         "real sonic.Conn on loopback with a 16 KiB send buffer (items of 300 KB..4 MB: many kernel segments, would-block in "
         "the middle of an item several times), and "
         "the extracted parser/encoder judges items, wire bytes and leftovers independently."),
   note=("Trusted: Coq kernel, translator (HeaderLen, MaxPayloadLength), extraction, harness incl. the in-memory transport "
         "(harness/drv/memstream.go, mirrored by Model/Transport.v). The model sits on the three-FIFO specification of "
         "ByteBuffer (C09). On the real socket only final outcomes are compared (the kernel chooses the segment sizes)."),
   technique="Coq refinement proof (decoder = pure parser; induction over transport segmentations; round-trip law); differential correspondence + extracted oracle"),
 "C06": dict(
   text=("Coq theorems (6, closed): over ANY segmentation of the inbound bytes by the transport (any chunking, cuts inside "
         "headers, would-block, EOF, errors, bytes left over in the read buffer) ReadNext/AsyncReadNext with the frame "
         "codec deliver a frame iff it is byte-for-byte the next frame of the stream and otherwise lose nothing "
         "(induction over the transport queue, on top of C07's decoder refinement); the blocking and asynchronous paths "
         "deliver the same frame; WHOLE MESSAGES (Proofs/WsMessageProofs.v): for every conforming message (first fragment, "
         "continuations, FIN on the last, valid Ping/Pong frames anywhere between; any number of fragments, any sizes "
         "within buffer and maximum) NextMessage/AsyncNextMessage deliver the control callbacks in order and exactly one "
         "message = concatenation of the fragment payloads with the first fragment's type, and leave the stream right "
         "behind the final fragment - when the bytes are there in any pieces, and (asynchronous API) when they arrive "
         "later in ANY pieces with the read parked in between (induction over the pieces and over the frames complete "
         "so far; completeness of the read loop; the model's loop fuel is proved sufficient); plus the per-frame "
         "reassembly lemmas. The whole-stream model is compared with the real Stream after every call on conforming "
         "sessions split at every 1-/2-cut of short streams and random chunkings, for NextFrame, AsyncNextFrame, "
         "NextMessage, AsyncNextMessage, with length classes up to 65535/65536/max; the extracted RFC session oracle "
         "re-derives frames and messages from the raw inbound bytes independently. Not proved: sequences of several "
         "messages as one statement (each message starts from a state satisfying the same premises, which the theorem "
         "re-establishes), and the blocking API on a transport that would block mid-message (it reports the error; "
         "compared, not proved)."),
   note="Trusted: Coq kernel, translator (constants, opcode predicates, ValidCloseCode), extraction, harness incl. the in-memory transport and the VerifAttach hook (client role after the handshake). Masking keys are an environment input taken from the implementation's wire. UTF-8 validation of text payloads (off by default), the server role and TLS are not modelled. Real sockets and event-loop interleavings are C17's/C01's subject.",
   technique="Coq proof (induction over transport segmentations and over the frames of a message, decoder refinement, read-loop completeness); differential correspondence + extracted RFC session oracle"),
 "C08": dict(
   text=("Coq theorems (11, closed): for EVERY sequence (no length bound, induction over the operation list) of peer events "
         "and local calls, from the fresh stream: at most one Close frame is ever queued for the wire, nothing is queued "
         "after it and none while Active; on a healthy transport the wire is frame by frame a prefix of what was queued, "
         "in order (so Pongs precede later application frames, no second Close, no data after Close); each Ping while "
         "Active queues exactly one Pong with the identical payload, Pongs queue nothing; the peer's Close is answered "
         "once (echo / 1000 / 1002) and the state becomes ClosedByPeer; reads after the handshake report EOF; writes are "
         "refused when not Active; local Close -> ClosedByUs; the peer's Close after ours -> CloseAcked; unexpected EOF -> "
         "1006 + Terminated. The model is compared with the real Stream on sampled sequences of length 2-4 over 16 peer "
         "events x 13 local calls from 5 start states and random sessions; the extracted RFC session oracle judges wire, "
         "State() and refusals independently. AsyncClose with the Close frame's flush deferred (real adapter on a loopback socket, the C17 driver and model) followed by writes / a second close before the poll is run as well."),
   note="Trusted: Coq kernel, translator (constants, opcode predicates, ValidCloseCode), extraction, harness incl. the in-memory transport and the VerifAttach hook (client role after the handshake). Masking keys are an environment input taken from the implementation's wire. UTF-8 validation of text payloads (off by default), the server role and TLS are not modelled. Real sockets and event-loop interleavings are C17's/C01's subject.",
   technique="Coq invariant proofs by induction over histories (close-frame invariant, wire = queue order) + state-machine lemmas; differential correspondence + extracted oracle"),
 "C15": dict(
   text=("Coq theorems (6, closed): handleFrame (used by every read API) reports an error iff the frame violates the framing "
         "rules, and these are exactly the arithmetic RFC 6455 rules (RSV bits, masked frame from a server, reserved "
         "opcode, fragmented control frame, control frame > 125) for every byte string (byte-level sweep lifted by "
         "forallb_forall); after a violation while Active: ClosedByUs with exactly one Close(1002) queued and writes "
         "refused, otherwise nothing changes; the message API delivers nothing of an errored frame; fragmentation rules; "
         "oversized frames are rejected by the decoder (C07). Every single-violation mutation (12 kinds) at every position "
         "of 3 conforming sessions under splits, for all 4 read APIs, fragmentation violations and size limits are run "
         "against the real Stream and judged by the extracted oracle."),
   note="Trusted: Coq kernel, translator (constants, opcode predicates, ValidCloseCode), extraction, harness incl. the in-memory transport and the VerifAttach hook (client role after the handshake). Masking keys are an environment input taken from the implementation's wire. UTF-8 validation of text payloads (off by default), the server role and TLS are not modelled. Real sockets and event-loop interleavings are C17's/C01's subject.",
   technique="Coq proof (error iff RFC violation, byte-sweep lifted to all inputs, state consequences); differential correspondence + extracted oracle"),
 "C16": dict(
   text=("Coq theorems (5, closed): every frame the client queues (application messages of every size < 2^63, caller-built "
         "frames with or without payload, automatic Pong/Close) followed by any bytes parses as exactly one frame with "
         "mask bit set, 4-byte key, un-masking = submitted bytes, shortest length encoding, FIN/opcode as submitted, exactly "
         "header + declared payload bytes; for every history on a healthy transport (partial accepts looped over) the "
         "wire is, in submission order and frame by frame, what was queued, and after a flush nothing is left; a message "
         "above the maximum is refused without writing anything. The model is compared with the real Stream for sizes "
         "0..70001 in shuffled order (pool reuse after longer and shorter frames), caller-built frames with/without "
         "SetPayload (also set twice on one frame), sync/async, transports accepting 1/7/all bytes per call, failure at every offset; every wire frame "
         "is re-parsed and un-masked by the extracted oracle."),
   note="Trusted: Coq kernel, translator (constants, opcode predicates, ValidCloseCode), extraction, harness incl. the in-memory transport and the VerifAttach hook (client role after the handshake). Masking keys are an environment input taken from the implementation's wire. UTF-8 validation of text payloads (off by default), the server role and TLS are not modelled. Real sockets and event-loop interleavings are C17's/C01's subject.",
   technique="Coq proof (round-trip law + wire invariant by induction over histories); differential correspondence + extracted parser oracle"),
 "C01": dict(
   text=("PARTIAL proof + full correspondence. Coq theorems (8, closed) about the hand-written model of file.go / "
         "internal/poll_linux.go / io.go (work-list machine; the epoll batch is an input, so all batches, masks and handler "
         "programs are quantified over): a batch entry for an object without interest dispatches nothing and changes "
         "nothing (never twice); Close leaves no interest and invokes nothing; every system-call attempt ends in exactly "
         "one completion or a re-arm; a deferred read reported with IN, HUP or ERR is dispatched by that poll (never zero "
         "times - FIFO hang-up with only a read interest included); Cancel completes the in-flight read once with the "
         "cancellation error (an EPERM-class error when the descriptor was closed underneath and epoll refuses the call); over ALL histories of script lines a closed object keeps no interest, so no later batch entry invokes a callback of it; and NEVER TWICE over ALL histories (Proofs/LoopOnce.v): for any callback identifier used only for I/O operations, any objects, handler programs, batches and peer behaviour, as long as the script does not itself start an operation on a direction that still has one deferred in flight (ghost flag l_overlap), callbacks run + operations registered with the poller + invocations waiting on the work list <= operations started - with one identifier per operation no completion callback runs twice (refuted without the contract by a vm_compute example). The remaining whole-history statement (never zero times: exactly one callback per started operation, none after Close) "
         "is the extracted ledger oracle Spec/OpLedger.v, applied to the model's and to the implementation's trace of "
         "every script (sockets, FIFO read/write ends, regular files, listeners, descriptors closed underneath the object; several ready descriptors per batch; handlers that "
         "re-issue, cancel, close or re-arm their own or another object; peer data/close/RST/hang-up; inline and deferred "
         "paths); the model is compared with the real loop after every script line (callbacks with error class, byte "
         "count and depth, Pending(), Dispatched, interest bits, registry membership, the batch itself)."),
   note=("Trusted: Coq kernel, extraction, harness glue, the kernel environment model (validated by the correspondence run). "
         "Modelled: File, Conn-as-file, listener and packet conn objects; the multicast peer and AsyncAdapter copies of the logic are not (C02, C12, C13 "
         "cover the adapter). 'Never zero times' over whole histories is proved per poll and judged by the ledger, not as one liveness theorem."),
   technique="Coq proof: never-twice invariant by induction over the work-list machine and over script lines (all histories), per-step dispatch lemmas over all batches and handler programs; differential correspondence + extracted exactly-once ledger oracle over histories"),
 "C03": dict(
   text=("Coq theorems (4, closed): for every script, every handler program, every poll batch and every peer behaviour - "
         "registrations that fail included (not pollable, or descriptor closed underneath the object with the other direction in flight) - Pending() = registered read/write interests + armed timers + posted handlers "
         "not yet run, after every script line (induction over lines and over the work-list machine inside a line: the "
         "machine never changes the difference). Return values of PollOne/RunOneFor/RunPending (positive count iff a "
         "handler ran, timeout when nothing was ready, RunPending returns exactly at zero) are decided on the "
         "implementation's trace by the extracted ledger oracle, which keeps its own count of operations in flight and "
         "compares it with Pending() after every line; model and implementation are compared after every line."),
   note=("Trusted: Coq kernel, extraction, harness, kernel environment model. EINTR is injected only by one whole-scenario "
         "op (signals every 5 ms into an untimed RunPending with a timer armed; judged directly, not through the model)."),
   technique="Coq proof (conserved quantity by induction over the work-list machine and over script lines); differential correspondence + extracted ledger oracle"),
 "C04": dict(
   text=("Coq theorems (8, closed) on the timer part of the loop model (sonic.Timer + internal.Timer + timerfd with an "
         "explicit clock; batches are inputs): a batch entry fires only if the timer still has its interest and the delay "
         "of its current schedule has elapsed (never early, stale entries of re-armed timers included); scheduling arms "
         "now + delay; firing disarms and removes the interest and an entry without interest does nothing (at most once); "
         "Cancel and Close remove the interest (never after); scheduling while scheduled or closed fails without "
         "disturbing anything; a closed timer stays closed under Cancel. The implementation is compared with the model "
         "on scripts with several timers and I/O objects ready in one batch, cancel/close/re-schedule from other "
         "handlers, repeating timers cancelled from their own callback; the ledger oracle checks callback counts per "
         "schedule, wall-clock 'never early', and that an armed timer is not more than 30 ms overdue after a poll that had the time to see it, on the real trace."),
   note="Trusted: Coq kernel, extraction, harness, environment model of timerfd (expiry = arm time + delay; readable iff expired). Real-time lateness is not bounded by anything.",
   technique="Coq proof (per-transition theorems over all batches) + differential correspondence + extracted ledger oracle"),
 "C14": dict(
   text=("Coq theorems (4, closed): for every chain script - handler programs made of any number of read/write starts on "
         "any mix of open pollable objects, any poll batches, peer behaviour, timers, posts, top-level cancels - every "
         "callback runs at nesting depth <= MaxCallbackDispatch + 1, and after every script line the depth is 0 and "
         "IO.Dispatched is back where the line found it (invariant over the work-list machine: stack = counted head ++ "
         "callbacks on the stack with at most one uncounted ++ poller work). PARTIAL: regular files are outside the "
         "theorem - at the limit their deferral fails in /repo (known finding C14-regular-file-deferral); the listener's copy "
         "of the logic (accept chains) and the packet conn's (datagram read/write chains; a deferred completion may run through the "
         "counting wrapper, which the invariant allows) are modelled, the multicast peer's is not. The implementation is compared with the model on chains "
         "over sockets, FIFOs, listeners, packet conns and regular files (depth of every callback, Dispatched after every line, results of the "
         "deferred operations)."),
   note="Trusted: Coq kernel, extraction, harness (nesting counter in the driver), kernel environment model. The theorem excludes runs that exhaust the model's fuel; the run reports fuel exhaustion as a mismatch.",
   technique="Coq proof (stack-shape invariant by induction over the work-list machine, lifted to all chain scripts); differential correspondence + ledger oracle"),
 "C02": dict(
   text=("Coq theorems (5, closed) about the model of the read/write reactors of file.go (TCP conns) and async_adapter.go, "
         "with the transport - unread bytes, end of stream, accepted bytes, and for the adapter an arbitrary script of "
         "(count, error) results - in the state, so that all payloads, buffer sizes and segmentations are quantified over: "
         "one run of asyncReadNow/asyncWriteNow moves exactly the bytes it takes, in order, keeps their exact count, and "
         "reports nil on an *All operation only with the buffer complete; for EVERY history (reads and writes of both "
         "kinds in flight together, polls, peer data, EOF, any result scripts) under the one-read-one-write contract: every "
         "byte the peer sent is exactly once, in order, in a completed read's buffer, in the buffer of the read in flight, "
         "or unread; the transport received exactly the accepted prefixes of the writes, in order; every callback's count "
         "is the number of bytes moved. The model is run against the real AsyncAdapter (scripted io.ReadWriter: every "
         "composition of <= 6 bytes into <= 3 segments x every disturbance position x Read/ReadAll x 4 buffer sizes; random "
         "long scripts) and against a real sonic.Dial TCP conn (peer segments between polls, half-close at every cut, "
         "200 kB ReadAll, 6 MiB WriteAll with kernel-chosen splits); an independent stream oracle judges the "
         "implementation's trace (position-dependent bytes, sentinels behind the buffer)."),
   note=("Trusted: Coq kernel, extraction, harness glue (scripted io.ReadWriter, raw peer socket). For large TCP writes only the "
         "final outcome is compared (the split is the kernel's; theorem C02_writeall_outcome_independent_of_split). "
         "Readiness/dispatch, cancel and close are C01's model; TCP itself is not modelled."),
   technique="Coq proof (stream invariant by induction over histories, all segmentations as state); differential correspondence on adapter and real TCP + extracted stream oracle"),
 "C05": dict(
   text=("Coq theorems (6, closed) about a transition system for Post/dispatch (mutex, eventfd counter, atomic pending counter, "
         "any number of posting goroutines, handlers that themselves post), one transition per statement touching shared "
         "state, a schedule being an arbitrary list of goroutine choices - so the theorems hold for ALL interleavings: "
         "invariant (FIFO: appended = run ++ batch ++ queue, nothing lost or twice; Pending() exact; one mutex holder; no lost "
         "wake-up: something queued implies eventfd > 0 or a poster between append and signal or the loop between drain and "
         "swap); per-goroutine posting order; deadlock freedom / progress in every reachable state with work left; at "
         "completion every handler ran exactly once in order and Pending() = 0; and the pre-repair structure (handlers run "
         "under the mutex) is REFUTED by a reachable deadlock. The implementation is compared with the system under "
         "script-dictated schedules (posts from the loop goroutine and 6 others, nesting depth 4, fan-out 3) on a dedicated "
         "loop goroutine with a deadlock watchdog, and concurrent phases (1-8 goroutines x 50-400 handlers x 0-2 nested posts "
         "racing polls and timer re-arms) are judged for exactly-once, loop-goroutine identity, order and exact counters; "
         "the thorough tier repeats them under the Go race detector."),
   note=("Trusted: Coq kernel, extraction, harness. Abstraction: each statement is atomic (justified by the mutex and sync/atomic "
         "in the repaired code; the race-detector run is a test of that, not a proof); other descriptors' readiness is C01's "
         "subject; the Go scheduler and memory model are not modelled."),
   technique="Coq proof (inductive invariant + progress over a labelled transition system, all interleavings); schedule-driven correspondence + concurrent oracle + race detector (thorough)"),
 "C18": dict(
   text=("PARTIAL proof + full correspondence. Coq theorems (7, closed) about the model of upgrade() after the request is "
         "written: the read loop conserves the byte stream and reports the head ending at the FIRST blank line for every "
         "segmentation, buffer size and fuel; two runs over transports delivering the same bytes agree on head and frame data "
         "(segmentation independence); the stream ends active iff the result is nil, otherwise terminated, and when active "
         "the bytes handed to the frame decoder followed by what the transport still holds are exactly the bytes after the "
         "blank line (none lost, none duplicated); the read loop is COMPLETE - a head that ends within the 64 KiB limit is found for every segmentation of the data and every buffer growth - so a conforming response (up to 90 data segments, the bound of the model's loop fuel) is always accepted, on a fresh stream and on one whose handshake buffer has grown; a header line parses to the same (name, value) whatever the letter case "
         "and optional whitespace; lookups are invariant under header order. The implementation is run against a raw server "
         "socket: responses from a grammar (status, protocol version, header set/order/case/whitespace, wrong/missing/"
         "duplicated accept, malformed lines, heads of 1 KiB to 140 KiB), every single cut and every close point of a short "
         "response, random multi-cuts, frames piggy-backed or following, blocking and asynchronous, up to 4 handshakes per "
         "stream; outcome, state, decoder contents and the first messages are compared with the model and judged by an "
         "independent oracle; the request is judged by an independent strict parser (key freshness included)."),
   note=("Trusted: Coq kernel, extraction, harness, net/http's parser (modelled only on the fragment the generator produces), "
         "crypto (the expected accept value is an input computed by the harness with crypto/sha1). Not proved: completeness "
         "of the read loop; heads above MaxHandshakeResponseSize (64 KiB) are refused by design and out of the oracle's scope. "
         "TLS dialling and the server role are not modelled."),
   technique="Coq proof (stream conservation by induction over the read loop, parser invariances); differential correspondence against a raw server socket + independent oracle"),
 "C13": dict(
   text=("PARTIAL proof + full correspondence. Coq theorems (6, closed): (owners stay alive) in every reachable state of the "
         "event-loop model - all scripts, batches and handler programs - an object with a read or write deferred to the poller "
         "is in the IO registry, also after its other direction completed or was cancelled; (no foreign close) for every "
         "history of creations and repeated Closes over a lowest-free descriptor table, objects with the close-once guard own "
         "distinct open descriptors and a repeated Close touches nothing, while the unguarded Close the listener and packet "
         "conn had is REFUTED; (no leaks) every error path of every constructor in a table transcribed from the code closes "
         "what it allocated and restores the table (finite sweep). The tie for the transcribed part is a /proc/self/fd census "
         "after every operation: every constructor on its success path and under every failure injectable without "
         "privileges (refused port, address in use, non-local address, missing file, broadcast without permission, websocket "
         "server answering 400 / garbage / closing mid-response, a second failed handshake on one stream), Close once / "
         "twice / three times with other objects created in between (fcntl(F_GETFD) on every other live descriptor), random "
         "creation/close histories, and GC probes (read, and read + deferred write in flight, no user reference, two GC "
         "cycles, then completion). Registry membership after every script line is also compared by the C01/C03 runs."),
   note=("Trusted: Coq kernel, extraction, harness, the transcription of constructor error paths (validated only by the "
         "census), the Go runtime opening no descriptors of its own mid-case. Not covered: descriptor-table exhaustion "
         "(RLIMIT_NOFILE) as a failure point, the garbage collector itself, TLS dialling."),
   technique="Coq proof (registry invariant by induction over the loop model; guard invariant over descriptor-table histories; finite sweep of constructor paths) + /proc/self/fd census correspondence + GC probes"),
 "C17": dict(
   text=("PARTIAL proof + full correspondence. Coq theorems (5, closed) about a focused model of the AsyncAdapter's single write "
         "reactor, CodecConn/ByteBuffer asynchronous write, the Stream's flush chain with waiting callers, AsyncWrite and the "
         "read path with automatic Pongs, for every history of application calls, peer events and polls with any number of "
         "bytes accepted per write call: the wire is a prefix of the frames in queue order (never interleaved or repeated); "
         "every completion registered with a flush (read continuation, or the callback of AsyncWrite/AsyncWriteFrame/"
         "AsyncFlush/AsyncClose) has run exactly once or is still held by the flush in flight (none dropped, none twice); "
         "a message read in flight is NEVER LOST: it is registered with the poller or it is the continuation held by the flush in flight (so it runs exactly once when that flush completes) - neither direction starves the other; "
         "the pre-repair structure is REFUTED (an application write replaces the Pong flush in the adapter and the read's "
         "continuation is lost). The implementation is a real client stream after a real handshake over the real adapter on "
         "a loopback socket: every ordering of {ping, write, poll, message} sequences up to length 5 after a read, random "
         "longer scripts with frames up to 60000 bytes; callbacks after every call and the frames the peer received are "
         "compared with the model and judged by an independent oracle (exactly-once, nothing dropped once settled, whole "
         "frames in order; AsyncClose with its flush in flight refuses later writes and closes)."),
   note=("Trusted: Coq kernel, extraction, harness. Frames are opaque in this model (format: C16); message reassembly and the "
         "closing handshake are C06/C08; real partial writes occur only for large frames (kernel-chosen), where only final outcomes are compared."),
   technique="Coq proof (invariant by mutual induction over the flush/continuation functions and over histories; refutation of the pre-repair structure) + correspondence on a real socket + independent oracle"),
 "C12": dict(
   text=("PARTIAL proof + full correspondence. Coq theorems (11, closed): (datagrams) for every history of arrivals, reads "
         "(inline or deferred), buffer re-designations, polls and writes on the model of the multicast peer's read/write paths "
         "over a kernel queue of whole datagrams: arrivals = datagrams consumed by completed reads (one per callback) ++ queue; "
         "a completing read delivers exactly the oldest datagram - bytes truncated to the buffer designated last, length, "
         "sender; a write emits exactly one datagram with the caller's bytes; (settings) TTL() and All() equal the socket's "
         "after every history of setters, failed ones included; Loop() equals it from the first successful SetLoop on and is "
         "REFUTED at construction (GetMulticastLoop inverted: known finding C12-getmulticastloop-inverted); (membership, "
         "environment model of Linux ip_mc_source) join delivers, block stops exactly that source, source-specific join delivers "
         "exactly that source, other groups unaffected, and the kernel's mode switch on a failed LeaveSource is exhibited. The "
         "implementation is a real UDPPeer: raw sender sockets with datagram sizes 1..9000 against buffers 1..2000, bursts, "
         "SetAsyncReadBuffer while pending, writes checked at the receiving socket; getters against getsockopt after every "
         "setter; every sequence of <= 3 (4 thorough) membership calls over 2 groups x 2 sources, each followed by group traffic."),
   note=("Trusted: Coq kernel, extraction, harness. The datagram queue and the membership store are models of the KERNEL validated "
         "by the run, not proved about it; packetConn is exercised by other runs only; IPv6 is unsupported by the peer; setter "
         "failures are covered by the theorems only (not injected)."),
   technique="Coq proof (queue invariant over histories, settings invariants, refutation at construction, environment lemmas) + correspondence on real UDP sockets and real multicast group traffic"),
}
