#!/bin/sh
# usage: tools/seedtest.sh <patch.diff> <property> [<property> ...]   -- apply a seeded change to /repo, run the checks, undo
patch=$1; shift
cd /repo || exit 2
if ! git diff --quiet; then echo "/repo has uncommitted changes"; exit 2; fi
git apply "$patch" || { echo "patch does not apply"; exit 2; }
cd /verif
for p in "$@"; do
  out=$(./check "$p" 2>&1); rc=$?
  echo "== $p exit=$rc"; echo "$out" | grep -E "^VIOLATION|oracle rejects|BROKEN|KNOWN" | cut -c1-260 | head -6
done
git -C /repo checkout -- . ; rm -f /verif/replays/*.json
