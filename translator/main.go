// translator: Go subset -> Gallina.  See DESIGN.md §3.A.
//
// Regenerates /verif/coq/Gen/*.v from /repo's current working tree.  Anything outside the supported subset is an
// error (exit status 3 and a line "TRANSLATOR-ERROR: ..."), never a silent skip.
package main

import (
	"bytes"
	"flag"
	"fmt"
	"go/ast"
	"go/parser"
	"go/token"
	"math/big"
	"os"
	"path/filepath"
	"sort"
	"strings"
)

type terr struct{ msg string }

func fail(pos token.Pos, f string, a ...any) {
	p := ""
	if fset != nil && pos.IsValid() {
		p = fset.Position(pos).String() + ": "
	}
	panic(terr{p + fmt.Sprintf(f, a...)})
}

var fset *token.FileSet

// ---------------------------------------------------------------------------------------------------------------
// package loading

type pkg struct {
	dir     string
	files   map[string]*ast.File
	structs map[string]*ast.StructType
	consts  map[string]*constDecl // name -> decl
	funcs   map[string]*ast.FuncDecl
	methods map[string]map[string]*ast.FuncDecl // recv type -> name -> decl
	intlike map[string]bool                     // named types with integer underlying type
}

type constDecl struct {
	expr ast.Expr // nil for implicit repetition
	iota int64
	prev *constDecl // for implicit repetition
}

var intBasic = map[string]bool{"int": true, "int8": true, "int16": true, "int32": true, "int64": true, "uint": true,
	"uint8": true, "uint16": true, "uint32": true, "uint64": true, "byte": true, "uintptr": true}

func loadPkg(repo, dir string) *pkg {
	p := &pkg{dir: dir, files: map[string]*ast.File{}, structs: map[string]*ast.StructType{},
		consts: map[string]*constDecl{}, funcs: map[string]*ast.FuncDecl{},
		methods: map[string]map[string]*ast.FuncDecl{}, intlike: map[string]bool{}}
	ents, err := os.ReadDir(filepath.Join(repo, dir))
	if err != nil {
		fail(token.NoPos, "read dir %s: %v", dir, err)
	}
	for _, e := range ents {
		n := e.Name()
		if e.IsDir() || !strings.HasSuffix(n, ".go") || strings.HasSuffix(n, "_test.go") ||
			strings.HasSuffix(n, "_bsd.go") || strings.HasPrefix(n, "verif_") {
			continue
		}
		f, err := parser.ParseFile(fset, filepath.Join(repo, dir, n), nil, 0)
		if err != nil {
			fail(token.NoPos, "parse %s: %v", n, err)
		}
		p.files[n] = f
		for _, d := range f.Decls {
			switch d := d.(type) {
			case *ast.GenDecl:
				switch d.Tok {
				case token.TYPE:
					for _, s := range d.Specs {
						ts := s.(*ast.TypeSpec)
						switch t := ts.Type.(type) {
						case *ast.StructType:
							p.structs[ts.Name.Name] = t
						case *ast.Ident:
							if intBasic[t.Name] {
								p.intlike[ts.Name.Name] = true
							}
						}
					}
				case token.CONST:
					var prev *constDecl
					for i, s := range d.Specs {
						vs := s.(*ast.ValueSpec)
						for j, name := range vs.Names {
							cd := &constDecl{iota: int64(i)}
							if len(vs.Values) > j {
								cd.expr = vs.Values[j]
							} else {
								cd.prev = prev
							}
							p.consts[name.Name] = cd
							prev = cd
						}
					}
				}
			case *ast.FuncDecl:
				if d.Recv == nil {
					p.funcs[d.Name.Name] = d
				} else {
					rt := d.Recv.List[0].Type
					if st, ok := rt.(*ast.StarExpr); ok {
						rt = st.X
					}
					if id, ok := rt.(*ast.Ident); ok {
						if p.methods[id.Name] == nil {
							p.methods[id.Name] = map[string]*ast.FuncDecl{}
						}
						p.methods[id.Name][d.Name.Name] = d
					}
				}
			}
		}
	}
	return p
}

// ---------------------------------------------------------------------------------------------------------------
// constants

func (p *pkg) evalConst(name string, seen map[string]bool) *big.Int {
	cd, ok := p.consts[name]
	if !ok {
		fail(token.NoPos, "constant %s not found in %s", name, p.dir)
	}
	if seen[name] {
		fail(token.NoPos, "constant cycle at %s", name)
	}
	seen[name] = true
	defer delete(seen, name)
	c := cd
	for c.expr == nil {
		if c.prev == nil {
			fail(token.NoPos, "constant %s has no value", name)
		}
		c = c.prev
	}
	return p.evalConstExpr(c.expr, cd.iota, seen)
}

func (p *pkg) evalConstExpr(e ast.Expr, iota int64, seen map[string]bool) *big.Int {
	switch e := e.(type) {
	case *ast.BasicLit:
		if e.Kind != token.INT {
			fail(e.Pos(), "unsupported constant literal %s", e.Value)
		}
		v, ok := new(big.Int).SetString(e.Value, 0)
		if !ok {
			fail(e.Pos(), "bad int literal %s", e.Value)
		}
		return v
	case *ast.ParenExpr:
		return p.evalConstExpr(e.X, iota, seen)
	case *ast.Ident:
		if e.Name == "iota" {
			return big.NewInt(iota)
		}
		return p.evalConst(e.Name, seen)
	case *ast.CallExpr: // conversion T(x)
		if len(e.Args) == 1 {
			if id, ok := e.Fun.(*ast.Ident); ok && (intBasic[id.Name] || p.intlike[id.Name]) {
				return p.evalConstExpr(e.Args[0], iota, seen)
			}
		}
		fail(e.Pos(), "unsupported call in constant expression")
	case *ast.UnaryExpr:
		x := p.evalConstExpr(e.X, iota, seen)
		switch e.Op {
		case token.SUB:
			return new(big.Int).Neg(x)
		case token.ADD:
			return x
		}
		fail(e.Pos(), "unsupported unary operator %s in constant", e.Op)
	case *ast.BinaryExpr:
		x := p.evalConstExpr(e.X, iota, seen)
		y := p.evalConstExpr(e.Y, iota, seen)
		switch e.Op {
		case token.ADD:
			return new(big.Int).Add(x, y)
		case token.SUB:
			return new(big.Int).Sub(x, y)
		case token.MUL:
			return new(big.Int).Mul(x, y)
		case token.SHL:
			return new(big.Int).Lsh(x, uint(y.Int64()))
		case token.SHR:
			return new(big.Int).Rsh(x, uint(y.Int64()))
		case token.OR:
			return new(big.Int).Or(x, y)
		case token.AND:
			return new(big.Int).And(x, y)
		case token.QUO:
			return new(big.Int).Quo(x, y)
		}
		fail(e.Pos(), "unsupported binary operator %s in constant", e.Op)
	}
	fail(e.Pos(), "unsupported constant expression %T", e)
	return nil
}

// ---------------------------------------------------------------------------------------------------------------
// expression / statement translation

type kind int

const (
	kInt kind = iota
	kBool
	kSlice
	kStruct
	kUnit
)

type ctx struct {
	p        *pkg
	recvName string // receiver identifier ("" if none)
	recvType string // struct or intlike type name
	recvIsSt bool
	prefix   string          // Coq name prefix for methods of recvType
	sliceFld string          // the single []byte field of the receiver struct (len modelled as <fld>_len)
	vars     map[string]kind // locals and params
	structs  map[string]string
	pure     map[string]bool // method name -> pure getter?
	retKind  kind
	isPure   bool
	external map[string]string // "pkg.Func" -> Coq variable standing for the call
	consts   map[string]string // Go const name -> Coq name (emitted in Consts.v)
	needed   map[string]bool   // constants referenced
	ctorOf   string            // constructor-prefix mode: struct name
	ctorVar  string
	ctorSl   string // Coq expression for the slice length in ctor mode
}

func (c *ctx) fields(st string) []string {
	s, ok := c.p.structs[st]
	if !ok {
		fail(token.NoPos, "struct %s not found", st)
	}
	var out []string
	for _, f := range s.Fields.List {
		for _, n := range f.Names {
			out = append(out, n.Name)
		}
	}
	return out
}

func (c *ctx) fieldKind(st, fld string) (kind, bool) {
	s := c.p.structs[st]
	for _, f := range s.Fields.List {
		for _, n := range f.Names {
			if n.Name == fld {
				switch t := f.Type.(type) {
				case *ast.Ident:
					if intBasic[t.Name] || c.p.intlike[t.Name] {
						return kInt, true
					}
					if t.Name == "bool" {
						return kBool, true
					}
				case *ast.ArrayType:
					if id, ok := t.Elt.(*ast.Ident); ok && t.Len == nil && id.Name == "byte" {
						return kSlice, true
					}
				}
				return kUnit, false
			}
		}
	}
	return kUnit, false
}

// modelled fields of a struct: int fields, plus "<slice>_len" for the []byte field
func (c *ctx) modelFields(st string) []string {
	var out []string
	for _, f := range c.fields(st) {
		k, ok := c.fieldKind(st, f)
		if !ok {
			continue
		}
		switch k {
		case kInt:
			out = append(out, f)
		case kSlice:
			out = append(out, f+"_len")
		}
	}
	return out
}

func coqField(st, f string) string { return st + "_" + f }

func (c *ctx) expr(e ast.Expr) (string, kind) {
	switch e := e.(type) {
	case *ast.ParenExpr:
		s, k := c.expr(e.X)
		return "(" + s + ")", k
	case *ast.BasicLit:
		if e.Kind != token.INT {
			fail(e.Pos(), "unsupported literal %s", e.Value)
		}
		v, ok := new(big.Int).SetString(e.Value, 0)
		if !ok {
			fail(e.Pos(), "bad literal")
		}
		return v.String(), kInt
	case *ast.Ident:
		if e.Name == "true" || e.Name == "false" {
			return e.Name, kBool
		}
		if k, ok := c.vars[e.Name]; ok {
			return e.Name, k
		}
		if _, ok := c.p.consts[e.Name]; ok {
			v := c.p.evalConst(e.Name, map[string]bool{})
			return "(" + v.String() + ")", kInt
		}
		fail(e.Pos(), "unknown identifier %s", e.Name)
	case *ast.SelectorExpr:
		if id, ok := e.X.(*ast.Ident); ok {
			if id.Name == c.recvName && c.recvIsSt {
				k, ok := c.fieldKind(c.recvType, e.Sel.Name)
				if !ok || k == kSlice {
					fail(e.Pos(), "unsupported field read %s.%s", id.Name, e.Sel.Name)
				}
				return fmt.Sprintf("(%s %s)", coqField(c.recvType, e.Sel.Name), id.Name), k
			}
			if st, ok := c.structs[id.Name]; ok {
				k, ok := c.fieldKind(st, e.Sel.Name)
				if !ok || k == kSlice {
					fail(e.Pos(), "unsupported field read %s.%s", id.Name, e.Sel.Name)
				}
				return fmt.Sprintf("(%s %s)", coqField(st, e.Sel.Name), id.Name), k
			}
		}
		fail(e.Pos(), "unsupported selector expression")
	case *ast.UnaryExpr:
		s, k := c.expr(e.X)
		switch {
		case e.Op == token.NOT && k == kBool:
			return "(negb " + s + ")", kBool
		case e.Op == token.SUB && k == kInt:
			return "(- " + s + ")", kInt
		}
		fail(e.Pos(), "unsupported unary %s", e.Op)
	case *ast.BinaryExpr:
		x, kx := c.expr(e.X)
		y, ky := c.expr(e.Y)
		if kx != ky {
			fail(e.Pos(), "operand kinds differ")
		}
		if kx == kInt {
			switch e.Op {
			case token.ADD:
				return "(" + x + " + " + y + ")", kInt
			case token.SUB:
				return "(" + x + " - " + y + ")", kInt
			case token.MUL:
				return "(" + x + " * " + y + ")", kInt
			case token.AND:
				return "(Z.land " + x + " " + y + ")", kInt
			case token.REM:
				return "(Z.rem " + x + " " + y + ")", kInt
			case token.QUO:
				return "(Z.quot " + x + " " + y + ")", kInt
			case token.EQL:
				return "(" + x + " =? " + y + ")", kBool
			case token.NEQ:
				return "(negb (" + x + " =? " + y + "))", kBool
			case token.LSS:
				return "(" + x + " <? " + y + ")", kBool
			case token.LEQ:
				return "(" + x + " <=? " + y + ")", kBool
			case token.GTR:
				return "(" + x + " >? " + y + ")", kBool
			case token.GEQ:
				return "(" + x + " >=? " + y + ")", kBool
			}
		}
		if kx == kBool {
			switch e.Op {
			case token.LAND:
				return "(" + x + " && " + y + ")", kBool
			case token.LOR:
				return "(" + x + " || " + y + ")", kBool
			case token.EQL:
				return "(Bool.eqb " + x + " " + y + ")", kBool
			}
		}
		fail(e.Pos(), "unsupported binary operator %s", e.Op)
	case *ast.CallExpr:
		// len(recv.slice)
		if id, ok := e.Fun.(*ast.Ident); ok && id.Name == "len" && len(e.Args) == 1 {
			if sel, ok := e.Args[0].(*ast.SelectorExpr); ok {
				if r, ok := sel.X.(*ast.Ident); ok && r.Name == c.recvName && sel.Sel.Name == c.sliceFld {
					return fmt.Sprintf("(%s %s)", coqField(c.recvType, c.sliceFld+"_len"), r.Name), kInt
				}
			}
			fail(e.Pos(), "unsupported len() argument")
		}
		// conversion of an int-like value
		if id, ok := e.Fun.(*ast.Ident); ok && len(e.Args) == 1 && (c.p.intlike[id.Name] || id.Name == "int") {
			return c.expr(e.Args[0])
		}
		// recv.Method() with no arguments, pure
		if sel, ok := e.Fun.(*ast.SelectorExpr); ok {
			if r, ok := sel.X.(*ast.Ident); ok {
				if r.Name == c.recvName && len(e.Args) == 0 {
					pure, known := c.pure[sel.Sel.Name]
					if !known || !pure {
						fail(e.Pos(), "call to non-pure or untranslated method %s", sel.Sel.Name)
					}
					k := c.methodRetKind(sel.Sel.Name)
					return fmt.Sprintf("(%s%s %s)", c.prefix, sel.Sel.Name, r.Name), k
				}
				if v, ok := c.external[r.Name+"."+sel.Sel.Name]; ok && len(e.Args) == 0 {
					return v, kInt
				}
			}
		}
		fail(e.Pos(), "unsupported call")
	case *ast.CompositeLit:
		if id, ok := e.Type.(*ast.Ident); ok {
			if _, ok := c.p.structs[id.Name]; ok {
				return c.composite(id.Name, e, ""), kStruct
			}
		}
		fail(e.Pos(), "unsupported composite literal")
	}
	fail(e.Pos(), "unsupported expression %T", e)
	return "", kUnit
}

func (c *ctx) composite(st string, e *ast.CompositeLit, sliceLen string) string {
	vals := map[string]string{}
	for _, el := range e.Elts {
		kv, ok := el.(*ast.KeyValueExpr)
		if !ok {
			fail(el.Pos(), "positional composite literal unsupported")
		}
		key := kv.Key.(*ast.Ident).Name
		k, ok := c.fieldKind(st, key)
		if !ok {
			continue // non-modelled field (string, etc.)
		}
		if k == kSlice {
			if id, ok := kv.Value.(*ast.Ident); !ok || id.Name != "nil" {
				fail(kv.Pos(), "slice field initialiser must be nil")
			}
			continue
		}
		s, _ := c.expr(kv.Value)
		vals[key] = s
	}
	var b strings.Builder
	b.WriteString("(mk" + st)
	for _, f := range c.modelFields(st) {
		if strings.HasSuffix(f, "_len") {
			if _, isInt := vals[f]; !isInt {
				if sliceLen == "" {
					sliceLen = "0"
				}
				b.WriteString(" " + sliceLen)
				continue
			}
		}
		v, ok := vals[f]
		if !ok {
			v = "0"
		}
		b.WriteString(" " + v)
	}
	b.WriteString(")")
	return b.String()
}

func (c *ctx) methodRetKind(name string) kind {
	d := c.p.methods[c.recvType][name]
	if d == nil {
		fail(token.NoPos, "method %s.%s not found", c.recvType, name)
	}
	return c.resultKind(d)
}

func (c *ctx) resultKind(d *ast.FuncDecl) kind {
	if d.Type.Results == nil || len(d.Type.Results.List) == 0 {
		return kUnit
	}
	if len(d.Type.Results.List) != 1 {
		fail(d.Pos(), "multiple results unsupported")
	}
	switch t := d.Type.Results.List[0].Type.(type) {
	case *ast.Ident:
		if intBasic[t.Name] || c.p.intlike[t.Name] {
			return kInt
		}
		if t.Name == "bool" {
			return kBool
		}
		if _, ok := c.p.structs[t.Name]; ok {
			return kStruct
		}
	case *ast.ArrayType:
		return kSlice
	}
	fail(d.Pos(), "unsupported result type")
	return kUnit
}

// is e a slice expression (x[a:b]) ?
func isSliceExpr(e ast.Expr) bool { _, ok := e.(*ast.SliceExpr); return ok }

// translate a slice expression into an `outcome slice` term
func (c *ctx) sliceExpr(e *ast.SliceExpr) string {
	if e.Slice3 {
		fail(e.Pos(), "3-index slices unsupported")
	}
	lo, hi := "0", ""
	if e.Low != nil {
		lo, _ = c.expr(e.Low)
	}
	switch x := e.X.(type) {
	case *ast.SelectorExpr:
		r, ok := x.X.(*ast.Ident)
		if !ok || r.Name != c.recvName || x.Sel.Name != c.sliceFld {
			fail(e.Pos(), "unsupported slice base")
		}
		ln := fmt.Sprintf("(%s %s)", coqField(c.recvType, c.sliceFld+"_len"), r.Name)
		if e.High != nil {
			hi, _ = c.expr(e.High)
		} else {
			hi = ln
		}
		return fmt.Sprintf("(slice_of %s %s %s)", ln, lo, hi)
	case *ast.Ident:
		if k, ok := c.vars[x.Name]; !ok || k != kSlice {
			fail(e.Pos(), "unsupported slice base %s", x.Name)
		}
		if e.High != nil {
			hi, _ = c.expr(e.High)
		} else {
			hi = "(slen " + x.Name + ")"
		}
		return fmt.Sprintf("(reslice %s %s %s)", x.Name, lo, hi)
	}
	fail(e.Pos(), "unsupported slice base")
	return ""
}

func (c *ctx) ret(val string) string {
	if c.isPure {
		return val
	}
	if c.recvName != "" && c.recvIsSt {
		return fmt.Sprintf("Ok (%s, %s)", c.recvName, val)
	}
	return val
}

func indent(n int) string { return strings.Repeat("  ", n) }

// translate a statement list followed by `tail` statements
func (c *ctx) stmts(list []ast.Stmt, depth int) string {
	if len(list) == 0 {
		if c.retKind != kUnit || c.isPure {
			fail(token.NoPos, "function falls off its end but has a result (%s)", c.prefix)
		}
		return c.ret("tt")
	}
	s, rest := list[0], list[1:]
	ind := indent(depth)
	switch s := s.(type) {
	case *ast.DeclStmt:
		gd := s.Decl.(*ast.GenDecl)
		if gd.Tok != token.VAR {
			fail(s.Pos(), "unsupported declaration")
		}
		var b strings.Builder
		for _, sp := range gd.Specs {
			vs := sp.(*ast.ValueSpec)
			id, ok := vs.Type.(*ast.Ident)
			if len(vs.Values) != 0 || !ok || !(intBasic[id.Name]) {
				fail(s.Pos(), "only zero-valued int var declarations are supported")
			}
			for _, n := range vs.Names {
				c.bind(n, kInt)
				fmt.Fprintf(&b, "%slet %s := 0 in\n", ind, n.Name)
			}
		}
		return b.String() + c.stmts(rest, depth)
	case *ast.AssignStmt:
		if len(s.Lhs) != 1 || len(s.Rhs) != 1 {
			fail(s.Pos(), "multi-assignment unsupported")
		}
		// constructor mode: b = &T{...}
		if c.ctorOf != "" {
			if id, ok := s.Lhs[0].(*ast.Ident); ok && id.Name == c.ctorVar {
				if u, ok := s.Rhs[0].(*ast.UnaryExpr); ok && u.Op == token.AND {
					if cl, ok := u.X.(*ast.CompositeLit); ok {
						return ind + "Some " + c.composite(c.ctorOf, cl, c.ctorSl) + "\n"
					}
				}
				fail(s.Pos(), "unexpected constructor assignment")
			}
		}
		var rhs string
		var rk kind
		bindOutcome := false
		if se, ok := s.Rhs[0].(*ast.SliceExpr); ok {
			rhs, rk, bindOutcome = c.sliceExpr(se), kSlice, true
		} else {
			rhs, rk = c.expr(s.Rhs[0])
		}
		switch lhs := s.Lhs[0].(type) {
		case *ast.Ident:
			name := lhs.Name
			switch s.Tok {
			case token.DEFINE:
				c.bind(lhs, rk)
			case token.ASSIGN:
				if k, ok := c.vars[name]; !ok || k != rk {
					fail(s.Pos(), "assignment to unknown or differently-typed variable %s", name)
				}
			case token.ADD_ASSIGN:
				rhs = "(" + name + " + " + rhs + ")"
			case token.SUB_ASSIGN:
				rhs = "(" + name + " - " + rhs + ")"
			default:
				fail(s.Pos(), "unsupported assignment operator %s", s.Tok)
			}
			if bindOutcome {
				return fmt.Sprintf("%sobind %s (fun %s =>\n%s)", ind, rhs, name, c.stmts(rest, depth))
			}
			return fmt.Sprintf("%slet %s := %s in\n%s", ind, name, rhs, c.stmts(rest, depth))
		case *ast.SelectorExpr:
			r, ok := lhs.X.(*ast.Ident)
			if !ok || r.Name != c.recvName || !c.recvIsSt || c.isPure || bindOutcome {
				fail(s.Pos(), "unsupported assignment target")
			}
			k, ok := c.fieldKind(c.recvType, lhs.Sel.Name)
			if !ok || k != kInt || rk != kInt {
				fail(s.Pos(), "assignment to non-int field %s", lhs.Sel.Name)
			}
			get := fmt.Sprintf("(%s %s)", coqField(c.recvType, lhs.Sel.Name), r.Name)
			switch s.Tok {
			case token.ASSIGN:
			case token.ADD_ASSIGN:
				rhs = "(" + get + " + " + rhs + ")"
			case token.SUB_ASSIGN:
				rhs = "(" + get + " - " + rhs + ")"
			default:
				fail(s.Pos(), "unsupported assignment operator %s", s.Tok)
			}
			return fmt.Sprintf("%slet %s := set_%s %s %s in\n%s", ind, r.Name, coqField(c.recvType, lhs.Sel.Name),
				r.Name, rhs, c.stmts(rest, depth))
		}
		fail(s.Pos(), "unsupported assignment target")
	case *ast.IfStmt:
		pre := ""
		saved := c.snapshot()
		if s.Init != nil {
			// translate the init as a let in front of the conditional; its scope covers both branches and, harmlessly,
			// the continuation (no shadowing is allowed, see bind)
			as, ok := s.Init.(*ast.AssignStmt)
			if !ok || as.Tok != token.DEFINE || len(as.Lhs) != 1 {
				fail(s.Pos(), "unsupported if-init")
			}
			v, k := c.expr(as.Rhs[0])
			id := as.Lhs[0].(*ast.Ident)
			c.bind(id, k)
			pre = fmt.Sprintf("%slet %s := %s in\n", ind, id.Name, v)
		}
		cond, ck := c.expr(s.Cond)
		if ck != kBool {
			fail(s.Pos(), "non-boolean condition")
		}
		snap := c.snapshot()
		thenS := c.stmts(append(append([]ast.Stmt{}, s.Body.List...), rest...), depth+1)
		c.restore(snap)
		var elseList []ast.Stmt
		switch el := s.Else.(type) {
		case nil:
		case *ast.BlockStmt:
			elseList = el.List
		case *ast.IfStmt:
			elseList = []ast.Stmt{el}
		default:
			fail(s.Pos(), "unsupported else")
		}
		elseS := c.stmts(append(append([]ast.Stmt{}, elseList...), rest...), depth+1)
		c.restore(saved)
		return fmt.Sprintf("%s%sif %s then\n%s\n%selse\n%s", pre, ind, cond, strings.TrimRight(thenS, "\n"), ind,
			elseS)
	case *ast.ReturnStmt:
		if c.ctorOf != "" {
			if len(s.Results) == 2 {
				if id, ok := s.Results[0].(*ast.Ident); ok && id.Name == "nil" {
					return ind + "None\n"
				}
			}
			fail(s.Pos(), "unsupported return in constructor prefix")
		}
		if len(s.Results) == 0 {
			if c.retKind != kUnit {
				fail(s.Pos(), "bare return in function with result")
			}
			return ind + c.ret("tt") + "\n"
		}
		if len(s.Results) != 1 {
			fail(s.Pos(), "multiple results unsupported")
		}
		r := s.Results[0]
		if c.retKind == kSlice {
			if id, ok := r.(*ast.Ident); ok && id.Name == "nil" {
				return ind + c.ret("None") + "\n"
			}
			if se, ok := r.(*ast.SliceExpr); ok {
				if c.isPure {
					fail(s.Pos(), "slice expression in pure getter")
				}
				return fmt.Sprintf("%sobind %s (fun rv_ => %s)\n", ind, c.sliceExpr(se), c.ret("Some rv_"))
			}
			fail(s.Pos(), "unsupported slice result")
		}
		v, k := c.expr(r)
		if k != c.retKind {
			fail(s.Pos(), "result kind mismatch")
		}
		return ind + c.ret(v) + "\n"
	case *ast.BlockStmt:
		return c.stmts(append(append([]ast.Stmt{}, s.List...), rest...), depth)
	case *ast.DeferStmt:
		if c.ctorOf != "" {
			return c.stmts(rest, depth) // the constructor's deferred cleanup is outside the modelled prefix
		}
	}
	fail(s.Pos(), "unsupported statement %T", s)
	return ""
}

func (c *ctx) bind(id *ast.Ident, k kind) {
	if _, ok := c.vars[id.Name]; ok {
		fail(id.Pos(), "redeclaration/shadowing of %s is outside the supported subset", id.Name)
	}
	if id.Name == c.recvName {
		fail(id.Pos(), "shadowing of receiver")
	}
	c.vars[id.Name] = k
}

func (c *ctx) snapshot() map[string]kind {
	m := map[string]kind{}
	for k, v := range c.vars {
		m[k] = v
	}
	return m
}
func (c *ctx) restore(m map[string]kind) { c.vars = m }

// does the function body assign to a receiver field or contain a slice expression?
func mutatesOrSlices(d *ast.FuncDecl, recv string) bool {
	found := false
	ast.Inspect(d.Body, func(n ast.Node) bool {
		switch n := n.(type) {
		case *ast.AssignStmt:
			for _, l := range n.Lhs {
				if sel, ok := l.(*ast.SelectorExpr); ok {
					if id, ok := sel.X.(*ast.Ident); ok && id.Name == recv {
						found = true
					}
				}
			}
		case *ast.IncDecStmt:
			found = true
		case *ast.SliceExpr:
			found = true
		}
		return true
	})
	return found
}

func kindCoq(k kind, c *ctx, d *ast.FuncDecl) string {
	switch k {
	case kInt:
		return "Z"
	case kBool:
		return "bool"
	case kSlice:
		return "option slice"
	case kUnit:
		return "unit"
	case kStruct:
		return d.Type.Results.List[0].Type.(*ast.Ident).Name
	}
	return "?"
}

func paramKind(c *ctx, t ast.Expr) (kind, string) {
	if id, ok := t.(*ast.Ident); ok {
		if intBasic[id.Name] || c.p.intlike[id.Name] {
			return kInt, "Z"
		}
		if id.Name == "bool" {
			return kBool, "bool"
		}
		if _, ok := c.p.structs[id.Name]; ok {
			return kStruct, id.Name
		}
	}
	fail(t.Pos(), "unsupported parameter type")
	return kUnit, ""
}

// emit record declaration with setters
func emitRecord(w *bytes.Buffer, c *ctx, st string) {
	fs := c.modelFields(st)
	fmt.Fprintf(w, "Record %s : Type := mk%s {\n", st, st)
	for i, f := range fs {
		sep := ";"
		if i == len(fs)-1 {
			sep = ""
		}
		fmt.Fprintf(w, "  %s : Z%s\n", coqField(st, f), sep)
	}
	fmt.Fprintf(w, "}.\n\n")
	for _, f := range fs {
		fmt.Fprintf(w, "Definition set_%s (r : %s) (v : Z) : %s :=\n  mk%s", coqField(st, f), st, st, st)
		for _, g := range fs {
			if g == f {
				fmt.Fprintf(w, " v")
			} else {
				fmt.Fprintf(w, " (%s r)", coqField(st, g))
			}
		}
		fmt.Fprintf(w, ".\n")
	}
	fmt.Fprintf(w, "\n")
}

func translateStructMethods(w *bytes.Buffer, p *pkg, st, sliceFld string, methods []string) {
	c := &ctx{p: p, recvType: st, recvIsSt: true, prefix: st + "_", sliceFld: sliceFld, pure: map[string]bool{}}
	emitRecord(w, c, st)
	for _, m := range methods {
		d := p.methods[st][m]
		if d == nil {
			fail(token.NoPos, "method %s.%s not found (renamed or removed?)", st, m)
		}
		c.recvName = d.Recv.List[0].Names[0].Name
		c.vars = map[string]kind{}
		c.structs = map[string]string{}
		c.retKind = c.resultKind(d)
		c.isPure = !mutatesOrSlices(d, c.recvName)
		var params strings.Builder
		for _, f := range d.Type.Params.List {
			k, ty := paramKind(c, f.Type)
			for _, n := range f.Names {
				c.vars[n.Name] = k
				if k == kStruct {
					c.structs[n.Name] = ty
				}
				fmt.Fprintf(&params, " (%s : %s)", n.Name, ty)
			}
		}
		rt := kindCoq(c.retKind, c, d)
		if !c.isPure {
			rt = fmt.Sprintf("outcome (%s * %s)", st, rt)
		}
		body := c.stmts(d.Body.List, 1)
		fmt.Fprintf(w, "(* %s *)\nDefinition %s%s (%s : %s)%s : %s :=\n%s.\n\n", fset.Position(d.Pos()), c.prefix, m,
			c.recvName, st, params.String(), rt, strings.TrimRight(body, "\n"))
		c.pure[m] = c.isPure
	}
}

func translateFunc(w *bytes.Buffer, p *pkg, name string, recvType string) {
	var d *ast.FuncDecl
	c := &ctx{p: p, pure: map[string]bool{}, isPure: true, vars: map[string]kind{}, structs: map[string]string{}}
	coqName := name
	if recvType != "" {
		d = p.methods[recvType][name]
		coqName = recvType + "_" + name
		c.prefix = recvType + "_"
		c.recvType = recvType
		for m := range p.methods[recvType] {
			c.pure[m] = true
		}
	} else {
		d = p.funcs[name]
	}
	if d == nil {
		fail(token.NoPos, "function %s not found (renamed or removed?)", coqName)
	}
	c.retKind = c.resultKind(d)
	var params strings.Builder
	if recvType != "" {
		rn := d.Recv.List[0].Names[0].Name
		c.recvName = rn
		c.vars[rn] = kInt
		fmt.Fprintf(&params, " (%s : Z)", rn)
	}
	for _, f := range d.Type.Params.List {
		k, ty := paramKind(c, f.Type)
		for _, n := range f.Names {
			c.vars[n.Name] = k
			if k == kStruct {
				c.structs[n.Name] = ty
			}
			fmt.Fprintf(&params, " (%s : %s)", n.Name, ty)
		}
	}
	// intlike receiver method calls: c.IsPing() -> (Opcode_IsPing c)
	body := c.stmts(d.Body.List, 1)
	fmt.Fprintf(w, "(* %s *)\nDefinition %s%s : %s :=\n%s.\n\n", fset.Position(d.Pos()), coqName, params.String(),
		kindCoq(c.retKind, c, d), strings.TrimRight(body, "\n"))
}

// constructor prefix of NewMirroredBuffer: statements up to and including `b = &MirroredBuffer{...}`
func translateCtorPrefix(w *bytes.Buffer, p *pkg, fn, st, bvar, sliceLen string, external map[string]string) {
	d := p.funcs[fn]
	if d == nil {
		fail(token.NoPos, "function %s not found", fn)
	}
	c := &ctx{p: p, pure: map[string]bool{}, vars: map[string]kind{}, structs: map[string]string{}, external: external,
		ctorOf: st, ctorVar: bvar, ctorSl: sliceLen, isPure: true, retKind: kStruct}
	var params strings.Builder
	for _, v := range sortedVals(external) {
		fmt.Fprintf(&params, " (%s : Z)", v)
		c.vars[v] = kInt
	}
	// only the integer parameters are modelled
	for _, f := range d.Type.Params.List {
		if id, ok := f.Type.(*ast.Ident); ok && intBasic[id.Name] {
			for _, n := range f.Names {
				c.vars[n.Name] = kInt
				fmt.Fprintf(&params, " (%s : Z)", n.Name)
			}
		}
	}
	// cut the body after the constructor assignment
	var list []ast.Stmt
	found := false
	for _, s := range d.Body.List {
		list = append(list, s)
		if as, ok := s.(*ast.AssignStmt); ok && len(as.Lhs) == 1 {
			if id, ok := as.Lhs[0].(*ast.Ident); ok && id.Name == bvar {
				found = true
				break
			}
		}
	}
	if !found {
		fail(d.Pos(), "constructor assignment %s = &%s{...} not found", bvar, st)
	}
	body := c.stmts(list, 1)
	fmt.Fprintf(w, "(* %s (prefix up to the composite literal) *)\nDefinition %s_new%s : option %s :=\n%s.\n\n",
		fset.Position(d.Pos()), st, params.String(), st, strings.TrimRight(body, "\n"))
}

func sortedVals(m map[string]string) []string {
	var out []string
	for _, v := range m {
		out = append(out, v)
	}
	sort.Strings(out)
	return out
}

// ---------------------------------------------------------------------------------------------------------------

const header = "(* GENERATED by /verif/translator from /repo -- do not edit. *)\nFrom Sonic Require Import Base.Prelude.\nLocal Open Scope Z_scope.\n\n"

func writeIfChanged(path string, content []byte) {
	old, err := os.ReadFile(path)
	if err == nil && bytes.Equal(old, content) {
		return
	}
	if err := os.WriteFile(path, content, 0o644); err != nil {
		fail(token.NoPos, "write %s: %v", path, err)
	}
	fmt.Println("translator: wrote", path)
}

// find an integer literal by AST pattern: make([]byte, N) inside function fn
func findMakeLen(p *pkg, fn string) *big.Int {
	d := p.funcs[fn]
	if d == nil {
		fail(token.NoPos, "function %s not found", fn)
	}
	var out *big.Int
	n := 0
	ast.Inspect(d.Body, func(nd ast.Node) bool {
		if ce, ok := nd.(*ast.CallExpr); ok {
			if id, ok := ce.Fun.(*ast.Ident); ok && id.Name == "make" && len(ce.Args) == 2 {
				if at, ok := ce.Args[0].(*ast.ArrayType); ok {
					if el, ok := at.Elt.(*ast.Ident); ok && el.Name == "byte" {
						out = p.evalConstExpr(ce.Args[1], 0, map[string]bool{})
						n++
					}
				}
			}
		}
		return true
	})
	if n != 1 {
		fail(d.Pos(), "expected exactly one make([]byte, N) in %s, found %d", fn, n)
	}
	return out
}

func run(repo, out string) {
	fset = token.NewFileSet()
	root := loadPkg(repo, ".")
	bts := loadPkg(repo, "bytes")
	ws := loadPkg(repo, "codec/websocket")
	fr := loadPkg(repo, "codec/frame")

	// ---- Consts.v
	var w bytes.Buffer
	w.WriteString(header)
	emitC := func(p *pkg, prefix string, names ...string) {
		for _, n := range names {
			v := p.evalConst(n, map[string]bool{})
			fmt.Fprintf(&w, "Definition %s%s : Z := %s.\n", prefix, n, v.String())
		}
	}
	emitC(root, "sonic_", "MaxCallbackDispatch")
	emitC(ws, "ws_", "MaxControlFramePayloadLength", "frameMaxHeaderLength", "frameHeaderLength", "bitFIN", "bitRSV1",
		"bitRSV2", "bitRSV3", "bitmaskOpcode", "bitIsMasked", "bitmaskPayloadLength", "frameMaskLength",
		"OpcodeContinuation", "OpcodeText", "OpcodeBinary", "OpcodeClose", "OpcodePing", "OpcodePong",
		"CloseNormal", "CloseGoingAway", "CloseProtocolError", "CloseUnknownData", "CloseBadPayload",
		"ClosePolicyError", "CloseTooBig", "CloseNeedsExtension", "CloseInternalError", "CloseServiceRestart",
		"CloseTryAgainLater", "CloseNone", "CloseNoStatus", "CloseAbnormal",
		"DefaultMaxMessageSize", "StateHandshake", "StateActive", "StateClosedByUs", "StateClosedByPeer",
		"StateCloseAcked", "StateTerminated", "TypeText", "TypeBinary", "TypeClose", "TypePing", "TypePong", "TypeNone")
	emitC(fr, "frame_", "HeaderLen", "MaxPayloadLength")
	fmt.Fprintf(&w, "Definition ws_handshakeBufferLen : Z := %s.\n", findMakeLen(ws, "NewWebsocketStream").String())
	writeIfChanged(filepath.Join(out, "Consts.v"), w.Bytes())

	// ---- Preds.v
	w.Reset()
	w.WriteString(header)
	for _, m := range []string{"IsContinuation", "IsText", "IsBinary", "IsClose", "IsPing", "IsPong", "IsReserved",
		"IsControl"} {
		translateFunc(&w, ws, m, "Opcode")
	}
	translateFunc(&w, ws, "ValidCloseCode", "")
	writeIfChanged(filepath.Join(out, "Preds.v"), w.Bytes())

	// ---- BipBuffer.v
	w.Reset()
	w.WriteString(header)
	translateStructMethods(&w, root, "BipBuffer", "data", []string{"Reset", "Wrapped", "Committed", "Claimed", "Size",
		"Empty", "Claim", "Commit", "Head", "Consume"})
	writeIfChanged(filepath.Join(out, "BipBuffer.v"), w.Bytes())

	// ---- Mirrored.v
	w.Reset()
	w.WriteString(header)
	translateStructMethods(&w, bts, "MirroredBuffer", "slice", []string{"FreeSpace", "UsedSpace", "Claim", "Commit",
		"Consume", "Full", "Size", "Reset"})
	translateCtorPrefix(&w, bts, "NewMirroredBuffer", "MirroredBuffer", "b", "(2 * size)",
		map[string]string{"syscall.Getpagesize": "sys_pagesize"})
	writeIfChanged(filepath.Join(out, "Mirrored.v"), w.Bytes())

	// ---- Slot.v
	w.Reset()
	w.WriteString(header)
	c := &ctx{p: root}
	emitRecord(&w, c, "Slot")
	translateFunc(&w, root, "OffsetSlot", "")
	writeIfChanged(filepath.Join(out, "Slot.v"), w.Bytes())
}

func main() {
	repo := flag.String("repo", "/repo", "repository root")
	out := flag.String("out", "/verif/coq/Gen", "output directory")
	flag.Parse()
	defer func() {
		if r := recover(); r != nil {
			if te, ok := r.(terr); ok {
				fmt.Println("TRANSLATOR-ERROR:", te.msg)
				os.Exit(3)
			}
			panic(r)
		}
	}()
	run(*repo, *out)
}
